"""C12 — path algebra: normalised, root-confined, invertible, separator-agnostic.

Shape A (input-space exhaustion) + closure exploration.  Everything runs on the
real PosixPath / WindowsPath classes; the oracle is posixpath/ntpath plus the
algebraic laws the property states.  See DESIGN.md §6 C12.
"""
import itertools
import ntpath
import re
import posixpath

from kernel import core

COMPS = ['', '.', '..', 'a', 'b', 'a.b', 'a b', '.a', '..a']      # '..a': starts with two dots but is an ordinary name
NAMES = ['a', 'b', 'a.b', 'a b', '.a', '..a']
PREFIXES = ['', '/', 'C:/', 'C:']          # relative, absolute, drive-abs, drive-rel
TRAILS = ['', '/']
BASES = None


def _imports():
    from bfg9000.platforms.posix import PosixPath
    from bfg9000.platforms.windows import WindowsPath
    from bfg9000.platforms.basepath import Root, InstallRoot, DestDir
    from bfg9000 import path as bpath
    return PosixPath, WindowsPath, Root, InstallRoot, DestDir, bpath


def base_dirs(Root, InstallRoot, DestDir, cls):
    d = {Root.srcdir: cls('/s/rc', Root.absolute),
         Root.builddir: cls('/b/ld', Root.absolute)}
    for i, r in enumerate(InstallRoot):
        d[r] = cls('/inst/r%d' % i, Root.absolute)
    return d


def ref_construct(s, relroot_is_absolute):
    """Reference: (kind, suffix) with kind in 'abs'/'rel', or None = rejected,
    or 'dontcare' for UNC-like strings whose drive semantics the docs leave open."""
    t = s.replace('\\', '/')
    drive = ''
    if len(t) >= 2 and t[1] == ':' and t[0].isalpha():
        drive, t = t[:2], t[2:]
        if not t.startswith('/'):
            return None                       # drive-relative: rejected
        t = '/' + t.lstrip('/')               # C://x is C:/x
    if t.startswith('//'):
        return 'dontcare'                     # UNC-like: drive semantics open
    n = posixpath.normpath(t) if t else '.'
    if n == '.':
        n = ''
    if t.startswith('/'):
        return ('abs', drive + n)
    if relroot_is_absolute:
        return None                           # relative string, absolute root
    if n == '..' or n.startswith('../'):
        return None                           # escapes its root
    return ('rel', n)


def strings(ncomp):
    """All '/'-joined strings of exactly ncomp components (canonical order)."""
    for comps in itertools.product(COMPS, repeat=ncomp):
        body = '/'.join(comps)
        for pre in PREFIXES:
            for tr in TRAILS:
                if ncomp == 0 and tr:
                    continue
                yield pre + body + tr


def sep_variants(s):
    """Every assignment of / or \\ to each separator position of s."""
    idx = [i for i, c in enumerate(s) if c == '/']
    if len(idx) > 5:                       # bound: full product up to 5 joints,
        masks = [0, (1 << len(idx)) - 1] + [1 << i for i in range(len(idx))] \
            + [((1 << len(idx)) - 1) ^ (1 << i) for i in range(len(idx))]
    else:
        masks = range(1, 1 << len(idx))
    for m in masks:
        if m == 0:
            continue
        l = list(s)
        for b, i in enumerate(idx):
            if m >> b & 1:
                l[i] = '\\'
        yield ''.join(l)


def state(p):
    return (type(p).__name__, p.root.name, p.suffix, bool(p.destdir),
            bool(p.directory))


def suffix_normal(suffix):
    """Law 2: fixed point of normalisation, no backslash, no ./.. component,
    no // and no trailing / (drive prefix and bare root excepted)."""
    s = suffix
    drive = ''
    if len(s) >= 2 and s[1] == ':':
        drive, s = s[:2], s[2:]
    else:
        m = re.match(r'//[^/]+/[^/]+', s)        # a UNC drive: //server/mount
        if m:
            drive, s = m.group(0), s[m.end():]
    if s in ('', '/'):
        return True
    if '\\' in s or '//' in s or (s.endswith('/')):
        return False
    comps = s.lstrip('/').split('/')
    return not any(c in ('', '.', '..') for c in comps)


def _shard(arg):
    flavour, ncomp, part, nparts = arg
    PosixPath, WindowsPath, Root, InstallRoot, DestDir, bpath = _imports()
    cls = PosixPath if flavour == 'posix' else WindowsPath
    npath = posixpath if flavour == 'posix' else ntpath
    roots = [Root.srcdir, Root.builddir, Root.absolute] + list(InstallRoot)
    bases = base_dirs(Root, InstallRoot, DestDir, cls)
    viol = []          # (law, witness, detail)
    n_eval = 0
    n_constructed = 0
    n_rejected = 0
    n_dontcare = 0
    states = set()
    sample = None

    def bad(law, witness, detail):
        viol.append((law, witness, detail))

    def build(s, root, destdir=False):
        try:
            return cls(s, root, destdir)
        except ValueError:
            return None

    for k, s in enumerate(strings(ncomp)):
        if k % nparts != part:
            continue
        for root in roots:
            n_eval += 1
            ref = ref_construct(s, root == Root.absolute)
            p = build(s, root)
            wit = '%s:%s:%r' % (flavour, root.name, s)
            if ref == 'dontcare':
                n_dontcare += 1
                continue
            elif ref is None:
                n_rejected += 1
                if p is not None:
                    bad('construct-accepts-escaping', wit, repr(state(p)))
            else:
                if p is None:
                    bad('construct-rejects-valid', wit, repr(ref))
                else:
                    exp_root = 'absolute' if ref[0] == 'abs' else root.name
                    if (p.root.name, p.suffix) != (exp_root, ref[1]):
                        bad('construct-normalise', wit,
                            'got %r expected %r' % ((p.root.name, p.suffix),
                                                    (exp_root, ref[1])))
            # law 3: separators are interchangeable
            for v in sep_variants(s):
                n_eval += 1
                q = build(v, root)
                if (p is None) != (q is None) or \
                        (p is not None and (p != q or state(p) != state(q))):
                    bad('separator-agnostic', wit + ' vs %r' % v,
                        '%r vs %r' % (p and state(p), q and state(q)))
            if p is None:
                continue
            n_constructed += 1
            if sample is None and ncomp:
                sample = dict(input=s, root=root.name, flavour=flavour,
                              state=list(state(p)))
            todo = [p]
            if root == Root.absolute or isinstance(root, InstallRoot):
                pd = build(s, root, True)
                if pd is None:
                    bad('construct-destdir', wit, 'destdir=True rejected')
                else:
                    todo.append(pd)
            for x in todo:
                states.add(state(x))
                check_state(x, cls, npath, bases, Root, DestDir, bad, wit)
    return dict(viol=viol, n_eval=n_eval, constructed=n_constructed,
                rejected=n_rejected, dontcare=n_dontcare,
                states=states, sample=sample)


def check_state(p, cls, npath, bases, Root, DestDir, bad, wit):
    # law 2
    if not suffix_normal(p.suffix):
        bad('suffix-normal', wit, repr(p.suffix))
    # law 4
    if p.suffix and not (p.root == Root.absolute and
                         p.suffix.rstrip('/').endswith(':')):
        try:
            par = p.parent()
            back = par.append(p.basename())
            if back != p or state(par)[:2] != state(p)[:2] or \
                    par.destdir != p.destdir or not par.directory:
                bad('parent-append-inverse', wit,
                    '%r -> parent %r -> %r' % (state(p), state(par),
                                               state(back)))
            if p.splitleaf() != (par, p.basename()):
                bad('splitleaf', wit, repr(p.splitleaf()))
        except ValueError as e:
            if p.suffix != '/':
                bad('parent-raises', wit, '%r: %s' % (state(p), e))
    elif not p.suffix:
        try:
            p.parent()
            bad('parent-of-root-accepted', wit, repr(state(p)))
        except ValueError:
            pass
    # law 6
    try:
        rt = cls.from_json(p.to_json())
        if rt != p or state(rt) != state(p):
            bad('json-roundtrip', wit, '%r -> %r -> %r' % (
                state(p), p.to_json(), state(rt)))
    except ValueError as e:
        bad('json-roundtrip', wit, '%r -> %r raises %s' % (
            state(p), p.to_json(), e))
    # law 8: realise == ordinary joining
    variables = dict(bases)
    got = p.string(variables)
    if p.root == Root.absolute:
        exp = p.suffix
    else:
        exp = posixpath.normpath(posixpath.join(
            bases[p.root].suffix, p.suffix))
    if npath is ntpath:
        exp = exp.replace('/', '\\')
    if got != exp:
        bad('realise-join', wit, 'got %r expected %r' % (got, exp))
    # law 8b: realise against VARIABLES (what the backends write) == ordinary joining of
    # [$(DESTDIR)] + $(root) + suffix, for every root, with DESTDIR defined and undefined
    for with_dest in (False, True):
        for exe in (False, True):
            vs = {r: ('<%s>' % r.name if r.name != 'builddir' else None) for r in bases if r != DestDir.destdir}
            if with_dest:
                vs[DestDir.destdir] = '<DEST>'
            try:
                got = p.realize(vs, executable=exe, localize=False)
            except Exception as e:     # noqa
                bad('realise-variables', wit, 'realize raises %r (destdir defined: %s)' % (e, with_dest))
                continue
            rootv = None if p.root == Root.absolute else vs[p.root]
            if exe and rootv is None and '/' not in p.suffix:
                rootv = '.'
            pre = ('<DEST>' if (p.destdir and with_dest) else '') + (rootv or '')
            if p.root == Root.absolute:
                exp = pre + p.suffix
            elif pre and p.suffix:
                exp = pre + '/' + p.suffix
            else:
                exp = pre or p.suffix or '.'
            if str(got) != exp:
                bad('realise-variables', wit, '%r (DESTDIR %sdefined, executable=%s): got %r expected %r'
                    % (state(p), '' if with_dest else 'un', exe, str(got), exp))
    # as_directory / reroot / ext laws
    d = p.as_directory()
    if d != p or not d.directory:
        bad('as-directory', wit, repr(state(d)))
    if p.stripext().addext(p.ext()) != p:
        bad('ext-inverse', wit, '%r ext %r' % (state(p), p.ext()))


OPS_APPEND = ['a', 'c/', '..', '../b', '.', 'a/../b', '/abs', 'x\\y']


def _closure(arg):
    """Closure of the normalised path set under the operations, to depth D;
    pairwise laws (relpath/append, eq/hash) on every reached state."""
    flavour, rootname, depth = arg
    PosixPath, WindowsPath, Root, InstallRoot, DestDir, bpath = _imports()
    cls = PosixPath if flavour == 'posix' else WindowsPath
    npath = posixpath if flavour == 'posix' else ntpath
    allroots = {r.name: r for r in list(Root) + list(InstallRoot)}
    root = allroots[rootname]
    bases = base_dirs(Root, InstallRoot, DestDir, cls)
    viol = []

    def bad(law, witness, detail):
        viol.append((law, witness, detail))

    init = []
    pre = '/' if root == Root.absolute else ''
    for n in range(0, 3):
        for comps in itertools.product(NAMES[:3], repeat=n):
            for tr in TRAILS:
                if n == 0 and tr:
                    continue
                init.append(cls(pre + '/'.join(comps) + tr, root))
    if root == Root.absolute:
        # well-formed UNC bases (//server/mount[/...]): what odd //-strings normalise to is left
        # open, but these are ordinary absolute paths with a drive and obey every law
        for u in ('//srv/mnt/', '//srv/mnt/a', '\\\\srv\\mnt\\a\\', '//srv/mnt/a/b c'):
            init.append(cls(u, root))
    seen = {}
    frontier = []
    for p in init:
        if state(p) not in seen:
            seen[state(p)] = (p, 'init %r' % (p.suffix,))
            frontier.append(p)
    transitions = 0
    for d in range(depth):
        nxt = []
        for p in frontier:
            hist = seen[state(p)][1]
            succ = []

            def op(name, fn):
                nonlocal transitions
                transitions += 1
                try:
                    r = fn()
                except ValueError:
                    return
                succ.append((name, r))
            op('parent', p.parent)
            for s in OPS_APPEND:
                op('append(%r)' % s, lambda s=s: p.append(s))
            op('stripext', p.stripext)
            op("addext('.x')", lambda: p.addext('.x'))
            op('as_directory', p.as_directory)
            for r2 in (Root.srcdir, Root.builddir):
                if not p.destdir:
                    op('reroot(%s)' % r2.name, lambda r2=r2: p.reroot(r2))
            # appending one ordinary component and taking the parent leads back
            try:
                back = p.append('zz').parent()
                if (back.root, back.suffix) != (p.root, p.suffix):
                    bad('append-parent-inverse', '%s:%s:%s' % (flavour, rootname, hist),
                        '%r .append(zz).parent() = %r' % (state(p), state(back)))
            except ValueError as e:
                bad('append-parent-inverse', '%s:%s:%s' % (flavour, rootname, hist), '%r raises %s' % (state(p), e))
            for name, r in succ:
                st = state(r)
                w = '%s:%s:%s' % (flavour, rootname, hist + ' . ' + name)
                if st not in seen:
                    seen[st] = (r, hist + ' . ' + name)
                    check_state(r, cls, npath, bases, Root, DestDir, bad, w)
                    nxt.append(r)
                # an operation never leaves the root (reroot/abs append aside)
                if name.startswith('append') and '/abs' not in name and \
                        r.root != p.root:
                    bad('append-changes-root', w, repr(st))
        frontier = nxt
    # pairwise laws over every reached state with this root
    plist = [v[0] for v in seen.values()]
    same = [p for p in plist if p.root == root]
    pairs = 0
    for p in same:
        for q in same:
            pairs += 1
            w = '%s:%s:%r,%r' % (flavour, rootname, state(p)[2:], state(q)[2:])
            # law 5
            if p.destdir == q.destdir:
                try:
                    rel = p.relpath(q)
                    back = q.append(rel)
                    if back != p:
                        bad('relpath-append-inverse', w,
                            'rel=%r back=%r' % (rel, state(back)))
                except ValueError as e:
                    bad('relpath-raises', w, str(e))
            # law 7
            same_loc = (p.suffix == q.suffix and p.destdir == q.destdir)
            if (p == q) != same_loc:
                bad('eq-location', w, '== is %r' % (p == q))
            if p == q and hash(p) != hash(q):
                bad('eq-hash', w, 'equal but hashes differ')
            if (p != q) == (p == q):
                bad('eq-ne', w, '!= inconsistent with ==')
    return dict(viol=viol, states=len(seen), transitions=transitions,
                pairs=pairs,
                sample=seen[sorted(seen)[len(seen) // 2]][1])


def pcomps(p):
    return [c for c in p.suffix.split('/') if c]


def _prefix(arg):
    """Law 9: commonprefix / uniquetrees on all multisets of <= k paths."""
    flavour, k, part, nparts = arg
    PosixPath, WindowsPath, Root, InstallRoot, DestDir, bpath = _imports()
    cls = PosixPath if flavour == 'posix' else WindowsPath
    roots = [Root.srcdir, Root.builddir, Root.absolute, InstallRoot.prefix]
    maxc = 3 if k <= 2 else 2
    paths = []
    for root in roots:
        pre = '/' if root == Root.absolute else ''
        for n in range(0, maxc + 1):
            for comps in itertools.product(['a', 'b', 'a b'], repeat=n):
                paths.append(cls(pre + '/'.join(comps), root))
    viol = []
    n = 0

    def under(x, y):      # x at or below y
        if x.root != y.root or x.destdir != y.destdir:
            return False
        xs, ys = pcomps(x), pcomps(y)
        return xs[:len(ys)] == ys

    for idx, S in enumerate(itertools.combinations_with_replacement(paths, k)):
        if idx % nparts != part:
            continue
        S = list(S)
        n += 1
        w = '%s:%r' % (flavour, [(p.root.name, p.suffix) for p in S])
        try:
            cp = bpath.commonprefix(S)
        except Exception as e:
            viol.append(('commonprefix-raises', w, repr(e)))
            cp = 'raised'
        if cp == 'raised':
            pass
        elif len({p.root for p in S}) > 1:
            if cp is not None:
                bad_ = ('commonprefix-mixed-roots', w, repr(state(cp)))
                viol.append(bad_)
        else:
            if cp is None or not all(under(p, cp) for p in S):
                viol.append(('commonprefix-not-ancestor', w,
                             repr(cp and state(cp))))
            else:
                # deepest common ancestor
                cl = [pcomps(p) for p in S]
                n_common = 0
                for tup in zip(*cl):
                    if len(set(tup)) != 1:
                        break
                    n_common += 1
                if pcomps(cp) != cl[0][:n_common]:
                    viol.append(('commonprefix-not-deepest', w,
                                 repr(state(cp))))
        try:
            ut = bpath.uniquetrees(S)
        except Exception as e:
            viol.append(('uniquetrees-raises', w, repr(e)))
            continue
        ok = all(any(u is p for p in S) for u in ut)
        cover = all(any(under(p, u) for u in ut) for p in S)
        minimal = not any(a is not b and under(a, b)
                          for a in ut for b in ut)
        if not ok:
            viol.append(('uniquetrees-not-subset', w, repr(ut)))
        if not cover:
            viol.append(('uniquetrees-not-covering', w,
                         repr([(u.root.name, u.suffix) for u in ut])))
        if not minimal:
            viol.append(('uniquetrees-not-minimal', w,
                         repr([(u.root.name, u.suffix) for u in ut])))
    return dict(viol=viol, n=n, npaths=len(paths))


def run(ctx):
    maxcomp = 4 if ctx.thorough else 3
    depth = 3 if ctx.thorough else 2
    shards = []
    for flavour in ('posix', 'windows'):
        for n in range(0, maxcomp + 1):
            nparts = {0: 1, 1: 1, 2: 2, 3: 8, 4: 32}[n]
            for part in range(nparts):
                shards.append(('A', (flavour, n, part, nparts)))
        for rootname in ('srcdir', 'builddir', 'absolute', 'prefix', 'bindir'):
            shards.append(('B', (flavour, rootname, depth)))
        for k in (1, 2, 3):
            nparts = {1: 1, 2: 2, 3: 16}[k]
            for part in range(nparts):
                shards.append(('C', (flavour, k, part, nparts)))
    order = core.seeded_order(range(len(shards)), ctx.seed)
    res = core.pmap(_dispatch, [shards[i] for i in order])
    res = [r for _, r in sorted(zip(order, res), key=lambda t: t[0])]

    ev = 0
    states = set()
    cstates = ctrans = pairs = multisets = 0
    constructed = rejected = dontcare = 0
    samples = []
    allviol = []
    for (kind, arg), r in zip(shards, res):
        allviol.extend(r['viol'])
        if kind == 'A':
            ev += r['n_eval']
            states |= r['states']
            constructed += r['constructed']
            rejected += r['rejected']
            dontcare += r['dontcare']
            if r['sample'] and len(samples) < 4 and arg[2] == 0:
                samples.append(r['sample'])
        elif kind == 'B':
            cstates += r['states']
            ctrans += r['transitions']
            pairs += r['pairs']
            if len(samples) < 8:
                samples.append(dict(history=r['sample'], flavour=arg[0]))
        else:
            multisets += r['n']
    # minimal witness per (law, flavour): results are in canonical order
    first = {}
    for law, wit, detail in allviol:
        rootsig = ','.join(sorted(set(re.findall(
            r'srcdir|builddir|absolute|prefix|exec_prefix|bindir|libdir|'
            r'includedir|datadir|mandir', wit))))
        cls_ = (law, wit.split(':', 1)[0] + ':' + rootsig + ':' +
                re.sub(r"'[^']*'", "''", detail)[:60])
        if cls_ not in first:
            first[cls_] = (wit, detail)
    for (law, flavour), (wit, detail) in first.items():
        ctx.violation('C12:%s:%s' % (law, wit), 'law %s fails: %s' % (law, detail),
                      case=wit, observed=detail)
    if constructed == 0 or rejected == 0 or len(states) < 50:
        raise core.HarnessError('vacuous C12 exploration')
    ctx.level = 'exploration'
    ctx.cov.update(
        evaluations=ev + pairs + multisets,
        distinct_nontrivial=len(states) + cstates,
        rule=('all strings of <=%d components over %r x prefixes %r x trailing '
              'separator x every /-vs-\\ assignment x 10 roots x destdir x 2 '
              'platform flavours; closure under parent/append/stripext/addext/'
              'as_directory/reroot to depth %d from all normalised paths of <=2 '
              'components; relpath/append and ==/hash on all ordered pairs of '
              'reached same-root states; commonprefix/uniquetrees on all '
              'multisets of <=3 paths over 4 roots. distinct = distinct '
              '(class,root,suffix,destdir,directory) states reached'
              % (maxcomp, COMPS, PREFIXES, depth)),
        samples=samples, exhaustive=True,
        states=len(states) + cstates, transitions=ctrans,
        strings_constructed=constructed, strings_rejected=rejected,
        strings_dontcare_unc=dontcare, pair_law_instances=pairs,
        multisets_checked=multisets, law_violation_instances=len(allviol),
        traces_validated_against_impl=ev + pairs + multisets)
    ctx.assumptions += [
        'posixpath/ntpath normpath+join are the reference for "ordinary path joining"',
        'strings starting with two separators (UNC-like) are a don\'t-care for '
        'acceptance; leading ~ components are outside the domain',
        'bound: <=%d components, append/closure depth %d' % (maxcomp, depth)]


def _dispatch(shard):
    kind, arg = shard
    return {'A': _shard, 'B': _closure, 'C': _prefix}[kind](arg)


def replay(rec):
    print('case:', rec.get('case'))
    print('observed on recorded run:', rec.get('observed'))
    ctx = core.Ctx('C12', rec.get('tier', 'quick'), 0)
    run(ctx)
    keys = sorted(ctx._viol)
    print('violations now:', keys)
    return rec['key'] not in keys
