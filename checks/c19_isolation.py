"""C19 — scripts are isolated and relative (submodules, options), user arguments accept both
spellings and survive regeneration.

Shape B.  (a) all trees of submodule inclusions up to a depth / branching bound (incl. ../sibling
inclusion and a sibling included from two parents): every script probes every other script's
names, exports a value to its caller, declares one input and one output; the build is run with
the stub toolchain and the files created are compared with the model.  (b) all project-argument
declarations over an action x type x default x name product, all command lines of <= 2
occurrences in every plain / --x- spelling: identical namespaces, and the same namespace at
regeneration.
"""
import itertools
import json
import os
import shutil

from kernel import core, bfg, proj


# ------------------------------------------------------------------ (a)

def trees(depth, branching):
    """A tree is a tuple of children; node ids are assigned in preorder."""
    def rec(d):
        if d == 0:
            return [()]
        subs = rec(d - 1)
        out = [()]
        for n in range(1, branching + 1):
            for kids in itertools.combinations_with_replacement(subs, n):
                out.append(tuple(kids))
        return out
    return rec(depth)


def layout(tree):
    """-> list of nodes: dict(id, dir (relative to srcdir), parent, children ids, via) where the
    first child of any node with >= 2 children is included through its sibling as ../name"""
    nodes = []

    def rec(t, d, parent):
        nid = len(nodes)
        node = dict(id=nid, dir=d, parent=parent, kids=[], t=t)
        nodes.append(node)
        for i, k in enumerate(t):
            cd = os.path.join(d, 'm%d' % i) if d else 'm%d' % i
            node['kids'].append(rec(k, cd, nid))
        return nid
    rec(tree, '', None)
    return nodes


def name_of(in_options):
    return 'options.bfg' if in_options else 'build.bfg'


def render_tree(tree, in_options):
    nodes = layout(tree)
    files = {}
    allnames = ['G_%d' % n['id'] for n in nodes] + ['F_%d' % n['id'] for n in nodes] + \
        ['K_%d' % n['id'] for n in nodes]
    for n in nodes:
        i = n['id']
        L = ["import json, os",
             "G_%d = 'value-%d'" % (i, i),
             "def F_%d(): return G_%d" % (i, i),
             "class K_%d: pass" % i,
             "_others = %r" % [x for x in allnames if not x.endswith('_%d' % i)],
             "_rec = {'id': %d, 'leaks': [], 'got': [], 'gotkeys': [], 'kid_common': [], 'export_error': None}" % i,
             "_kids = []",
             "def _probe(when):",
             "    for _n in _others:",
             "        try:",
             "            eval(_n)",
             "            _rec['leaks'].append([when, _n])",
             "        except NameError:",
             "            pass",
             "_probe('start')"]
        for j, k in enumerate(n['kids']):
            kd = nodes[k]['dir']
            # the last child of a node with two children is reached through its sibling's
            # directory (../sibling)
            if len(n['kids']) == 2 and j == 1:
                ref = os.path.join('m0', '..', 'm1')
            else:
                ref = 'm%d' % j
            L.append("_e = submodule(%r)" % ref)
            L.append("_rec['got'].append([%d, sorted((a, b) for a, b in _e.items() if a in ('val', 'who'))])" % k)
            L.append("_rec['gotkeys'].append(sorted(_e))")
            L.append("_kids.append((%d, _e))" % k)
            L.append("_probe('after-%d')" % k)
        # a sibling script included a second time (export-only, declares no output)
        if n['kids']:
            L.append("_e = submodule('shared')")
            L.append("_rec['got'].append(['shared', sorted(_e.items())])")
        # an optional component whose script fails: the caller catches the error and carries on;
        # everything it declares afterwards must still be relative to the CALLER
        L.append("try:")
        L.append("    submodule('broken')")
        L.append("    _rec['broken'] = 'no error'")
        L.append("except Exception as _x:")
        L.append("    _rec['broken'] = 'caught'")
        files[os.path.join(n['dir'], 'broken', name_of(in_options))] = "raise RuntimeError('optional component is missing')\n"
        # one script included by EVERY node (so it is executed several times in one run): each
        # inclusion must hand out its own exports -- the caller annotates what it received
        depth = len(n['dir'].split('/')) if n['dir'] else 0
        L.append("_c = submodule(%r)" % ('../' * depth + 'common'))
        L.append("_rec['common'] = {'keys': sorted(_c), 'fresh': list(_c['fresh']), 'n': _c['n']}")
        L.append("_c['fresh'].append(%d)" % i)
        L.append("_c['touched_by_%d'] = True" % i)
        # what the children re-exported is read only now, after later inclusions of `common`
        L.append("for _k, _ke in _kids:")
        L.append("    _rec['kid_common'].append([_k, _ke['cn'], _ke['cdict']['n'], "
                 "sorted(x for x in _ke['cdict'] if x.startswith('touched_by_')), list(_ke['cdict']['fresh'])])")
        if not in_options:
            L.append("_out = copy_file('out_%d.txt', 'in.txt')" % i)
            L.append("_g = build_step('gen_%d.txt', cmd=['gen', build_step.output, '--', "
                     "build_step.input], files=['in.txt'])" % i)
            # an input named by a plain string in extra_deps= is an input path like any other
            L.append("_x = build_step('xdep_%d.txt', cmd=['gen', build_step.output, '--', build_step.input], "
                     "files=['in.txt'], extra_deps=['xd.txt'])" % i)
            # an explicit intermediate directory is an output path like any other
            L.append("_sl = static_library('sl_%d', ['c_%d.c'], intermediate_dir='objs')" % (i, i))
            L.append("default(_out, _g, _x, _sl)")
            L.append("_rec['paths'] = [_out.path.suffix, _out.path.root.name, "
                     "_out.creator.file.path.suffix, _out.creator.file.path.root.name]")
        if n['parent'] is None:
            L += ["try:", "    export(x=1)", "except ValueError as e:",
                  "    _rec['export_error'] = 'ValueError'"]
        else:
            L.append("export(who=%d, val=G_%d, cn=_c['n'], cdict=_c)" % (i, i))
        L.append("open(os.path.join(os.environ['VERIF_OUT'], '%s_%d.json'), 'w').write(json.dumps(_rec))"
                 % ('opt' if in_options else 'bld', i))
        name = 'options.bfg' if in_options else 'build.bfg'
        files[os.path.join(n['dir'], name)] = '\n'.join(L) + '\n'
        files[os.path.join(n['dir'], 'in.txt')] = 'content of node %d\n' % i
        files[os.path.join(n['dir'], 'xd.txt')] = 'extra dependency of node %d\n' % i
        files[os.path.join(n['dir'], 'c_%d.c' % i)] = 'int c_%d;\n' % i
        if n['kids']:
            sd = os.path.join(n['dir'], 'shared')
            files[os.path.join(sd, name)] = (
                "S_%d = 1\nexport(shared_from=%r%s)\n" % (
                    i, sd, '' if in_options else ", f=source_file('in.txt').path.suffix"))
            files[os.path.join(sd, 'in.txt')] = 'shared\n'
    files[os.path.join('common', name)] = (
        "import os\n_d = os.path.join(os.environ['VERIF_OUT'], 'common_runs')\nos.makedirs(_d, exist_ok=True)\n"
        "_n = len(os.listdir(_d))\nopen(os.path.join(_d, str(_n)), 'w').close()\nexport(n=_n, fresh=[])\n")
    return nodes, files


def _tree_shard(arg):
    tlist, backend = arg
    root = os.path.join(core.worker_dir(), 'c19')
    viol = []
    n = 0
    for tree in tlist:
        for in_options in (False, True):
            nodes, files = render_tree(tree, in_options)
            if in_options:
                files['build.bfg'] = "default(copy_file('o.txt', 'in.txt'))\n"
            outd = os.path.join(root, 'out')
            shutil.rmtree(root, ignore_errors=True)
            os.makedirs(outd)
            pr = proj.Proj(os.path.join(root, 'p'), backend, files, files['build.bfg'],
                           extra_env={'VERIF_OUT': outd})
            r = pr.configure()
            n += 1
            desc = 'tree=%r %s %s' % (tree, 'options.bfg' if in_options else 'build.bfg', backend)
            runs = os.path.join(outd, 'common_runs')
            if r.rc == 0 and len(os.listdir(runs) if os.path.isdir(runs) else []) != len(nodes):
                viol.append(('script-not-run', desc, 'the common script ran %d times for %d inclusions'
                             % (len(os.listdir(runs)) if os.path.isdir(runs) else 0, len(nodes))))
            if r.rc != 0:
                viol.append(('configure-fails', desc, r.err[-300:]))
                continue
            recs = {}
            for f in os.listdir(outd):
                if not f.endswith('.json'):
                    continue
                d = json.load(open(os.path.join(outd, f)))
                recs[d['id']] = d
            for nd in nodes:
                d = recs.get(nd['id'])
                if d is None:
                    viol.append(('script-not-run', desc, 'node %d' % nd['id']))
                    continue
                if d['leaks']:
                    viol.append(('name-visible', desc, 'script %d sees %r' % (nd['id'], d['leaks'][:3])))
                want = [[k, [['val', 'value-%d' % k], ['who', k]]] for k in nd['kids']]
                got = [g for g in d['got'] if g[0] != 'shared']
                if got != want:
                    viol.append(('exports', desc, 'script %d received %r, expected %r'
                                 % (nd['id'], got, want)))
                if d.get('broken') != 'caught':
                    viol.append(('failing-submodule', desc, 'script %d: including a script that raises: %r'
                                 % (nd['id'], d.get('broken'))))
                if d['gotkeys'] != [['cdict', 'cn', 'val', 'who']] * len(nd['kids']):
                    viol.append(('exports', desc, 'script %d received the keys %r' % (nd['id'], d['gotkeys'])))
                c = d['common']
                if c['keys'] != ['fresh', 'n'] or c['fresh'] != []:
                    viol.append(('exports-shared-between-inclusions', desc,
                                 'script %d includes a script that others include too and receives keys %r, '
                                 'fresh=%r (expected exactly its exports: fresh=[] and n)'
                                 % (nd['id'], c['keys'], c['fresh'])))
                for k, cn, cdn, touched, fresh in d['kid_common']:
                    if cn != cdn or touched != ['touched_by_%d' % k] or fresh != [k]:
                        viol.append(('exports-shared-between-inclusions', desc,
                                     'script %d: what child %d re-exported changed after a later inclusion of the '
                                     'same script: n %r -> %r, annotations %r, list %r'
                                     % (nd['id'], k, cn, cdn, touched, fresh)))
                sh = [g for g in d['got'] if g[0] == 'shared']
                if nd['kids']:
                    sd = os.path.join(nd['dir'], 'shared')
                    exp = [['shared_from', sd]] if in_options else \
                        [['f', os.path.join(sd, 'in.txt')], ['shared_from', sd]]
                    if [g[1] for g in sh] != [exp]:
                        viol.append(('shared-exports', desc, 'script %d received %r, expected %r'
                                     % (nd['id'], sh, exp)))
                if nd['parent'] is None and d['export_error'] != 'ValueError':
                    viol.append(('root-export-accepted', desc, repr(d['export_error'])))
                if not in_options:
                    exp = [os.path.normpath(os.path.join(nd['dir'], 'out_%d.txt' % nd['id'])), 'builddir',
                           os.path.normpath(os.path.join(nd['dir'], 'in.txt')), 'srcdir']
                    if d['paths'] != exp:
                        viol.append(('relative-paths', desc, 'script %d: %r, expected %r'
                                     % (nd['id'], d['paths'], exp)))
            if in_options:
                continue
            # build and observe where files are really read and written
            rc, out, lrecs = pr.run([])
            n += 1
            if rc != 0:
                viol.append(('build-fails', desc, out[-300:]))
                continue
            for nd in nodes:
                for name, kind in (('out_%d.txt' % nd['id'], 'copy'), ('gen_%d.txt' % nd['id'], 'gen')):
                    p = os.path.join(pr.bld, nd['dir'], name)
                    if not os.path.exists(p):
                        viol.append(('output-misplaced' if kind == 'copy' else
                                     'build_step-output-misplaced', desc, '%s not created at %s'
                                     % (name, os.path.join('<bld>', nd['dir']))))
                    elif kind == 'copy' and open(p).read() != 'content of node %d\n' % nd['id']:
                        viol.append(('input-misresolved', desc, '%s has content %r'
                                     % (name, open(p).read())))
            for nd in nodes:
                o = os.path.join(pr.bld, nd['dir'], 'objs', 'c_%d.o' % nd['id'])
                if not os.path.exists(o):
                    where = [os.path.relpath(os.path.join(b, f), pr.bld) for b, ds, fs in os.walk(pr.bld)
                             for f in fs if f == 'c_%d.o' % nd['id']]
                    viol.append(('intermediate_dir-misplaced', desc,
                                 "script %d: static_library(..., intermediate_dir='objs'): object expected at %s, "
                                 'found at %r' % (nd['id'], os.path.join('<bld>', nd['dir'], 'objs'), where)))
            created = sorted(os.path.relpath(os.path.join(b, f), pr.bld) for b, ds, fs in os.walk(pr.bld)
                             for f in fs if f.startswith('out_') and f.endswith('.txt'))
            want = sorted(os.path.normpath(os.path.join(nd['dir'], 'out_%d.txt' % nd['id']))
                          for nd in nodes)
            if created != want:
                viol.append(('outputs', desc, 'created %r, expected %r' % (created, want)))
            for s in proj.steps_of(lrecs):
                if s['tool'] == 'gen':
                    for i in s['inputs']:
                        if not i.startswith(pr.src + '/'):
                            viol.append(('input-outside-srcdir', desc, i))
            # the string given to extra_deps= names the file next to the script that gave it
            for nd in nodes:
                proj.modify(os.path.join(pr.src, nd['dir'], 'xd.txt'))
                rc, out, xrecs = pr.run([])
                n += 1
                remade = sorted(os.path.relpath(o, pr.bld) for st in proj.steps_of(xrecs) for o in st['outputs'])
                want = [os.path.normpath(os.path.join(nd['dir'], 'xdep_%d.txt' % nd['id']))]
                # (build_step outputs of submodules land in the top build directory: known finding;
                # compare by file name)
                if rc != 0 or [os.path.basename(x) for x in remade] != [os.path.basename(w) for w in want]:
                    viol.append(('extra_deps-string-misresolved', desc,
                                 "script %d gives extra_deps=['xd.txt']: after modifying %s the build re-made %r, "
                                 'expected %r' % (nd['id'], os.path.join(nd['dir'], 'xd.txt'), remade, want)))
    shutil.rmtree(root, ignore_errors=True)
    return viol, n


# ------------------------------------------------------------------ (b)

NAMES = ['foo', 'foo-bar', 'x']


def declarations(thorough):
    decls = []
    for name in NAMES:
        for kw in ({}, {'default': 'dv'}, {'type': 'int'}, {'type': 'int', 'default': 7},
                   {'choices': ['a', 'b']}, {'dest': 'other'}, {'action': 'append'},
                   {'action': 'append', 'type': 'int'}, {'action': 'store_true'},
                   {'action': 'store_false'}, {'action': 'store_const', 'const': 'C'},
                   {'action': 'count'}, {'action': 'enable'}, {'action': 'enable', 'default': True},
                   {'action': 'with'}, {'action': 'with', 'default': True}):
            if not thorough and name != 'foo' and kw.get('action') not in ('enable', 'with', None):
                continue
            decls.append((name, kw))
    # an argument declared with several names: every name has both spellings
    for kw in ({}, {'type': 'int'}, {'action': 'append'}, {'action': 'enable'}, {'action': 'with', 'default': True},
               {'action': 'store_true'}):
        decls.append((('foo', 'alt'), kw))
        if thorough:
            decls.append((('foo', 'alt-name', 'third'), kw))
    return decls


def occurrences(name, kw):
    """ways one occurrence of the option can be written: [(plain, xspelling)]"""
    if isinstance(name, tuple):
        return [o for n in name for o in occurrences(n, kw)]
    act = kw.get('action')
    vals = ['1', '2'] if kw.get('type') == 'int' else (['a', 'b'] if 'choices' in kw else ['v1', 'v 2'])
    if act in ('enable', 'with'):
        t, f = ('enable-', 'disable-') if act == 'enable' else ('with-', 'without-')
        return [(['--%s%s' % (t, name)], ['--x-%s%s' % (t, name)]),
                (['--%s%s' % (f, name)], ['--x-%s%s' % (f, name)])]
    if act in ('store_true', 'store_false', 'store_const', 'count'):
        return [(['--' + name], ['--x-' + name])]
    out = []
    for v in vals:
        out.append((['--' + name, v], ['--x-' + name, v]))
        out.append((['--%s=%s' % (name, v)], ['--x-%s=%s' % (name, v)]))
    return out


def decl_src(name, kw):
    args = [repr(n) for n in name] if isinstance(name, tuple) else [repr(name)]
    for k, v in kw.items():
        args.append('%s=%s' % (k, 'int' if (k == 'type' and v == 'int') else repr(v)))
    return 'argument(%s)\n' % ', '.join(args)


ARG_BUILD = ("import json, os\n"
             "open(os.environ['VERIF_OUT'], 'w').write(json.dumps(vars(argv), sort_keys=True))\n"
             "default(copy_file('o.txt', 'in.txt'))\n")


def _arg_shard(arg):
    decls = arg
    root = os.path.join(core.worker_dir(), 'c19b')
    viol = []
    n = 0
    outcomes = set()
    for name, kw in decls:
        occ = occurrences(name, kw)
        lines = [[]] + [[o] for o in occ] + [[a, b] for a in occ for b in occ]
        files = {'options.bfg': decl_src(name, kw), 'in.txt': 'x\n'}
        shutil.rmtree(root, ignore_errors=True)
        outp = os.path.join(root, 'argv.json')
        pr = proj.Proj(os.path.join(root, 'p'), 'make', files, ARG_BUILD, extra_env={'VERIF_OUT': outp})
        first_regen_done = False
        for line in lines:
            results = {}
            for spelling in itertools.product((0, 1), repeat=len(line)):
                argv_ = [a for o, s in zip(line, spelling) for a in o[s]]
                shutil.rmtree(pr.bld, ignore_errors=True)
                if os.path.exists(outp):
                    os.remove(outp)
                r = bfg.configure(pr.src, pr.bld, 'make', pr.env, extra=argv_)
                n += 1
                ns = open(outp).read() if (r.rc == 0 and os.path.exists(outp)) else 'ERROR rc=%s' % r.rc
                results[tuple(argv_)] = ns
                outcomes.add(ns)
                if r.rc == 0:
                    # every later regeneration sees the configure-time values
                    os.remove(outp)
                    rr = bfg.regenerate(pr.bld, pr.env, inproc=True)
                    n += 1
                    ns2 = open(outp).read() if (rr.rc == 0 and os.path.exists(outp)) else 'ERROR rc=%s' % rr.rc
                    if ns2 != ns:
                        viol.append(('regenerate-namespace', '%s %r' % (decl_src(name, kw).strip(), argv_),
                                     'configure saw %s, regenerate saw %s' % (ns, ns2)))
                    if not first_regen_done and argv_:
                        # backend-triggered regeneration (make notices a newer build.bfg)
                        first_regen_done = True
                        os.remove(outp)
                        proj.modify(os.path.join(pr.src, 'options.bfg'))
                        with open(os.path.join(pr.src, 'options.bfg'), 'w') as f:
                            f.write(decl_src(name, kw))
                        proj.tick()
                        rc, out, _ = pr.run([])
                        n += 1
                        ns3 = open(outp).read() if os.path.exists(outp) else 'NOT-REGENERATED rc=%s' % rc
                        if ns3 != ns:
                            viol.append(('make-regenerate-namespace',
                                         '%s %r' % (decl_src(name, kw).strip(), argv_),
                                         'configure saw %s, make-triggered regeneration saw %s: %s'
                                         % (ns, ns3, out[-200:])))
            if len(set(results.values())) != 1:
                viol.append(('spelling', '%s %r' % (decl_src(name, kw).strip(),
                                                    [a for o in line for a in o[0]]),
                             'namespaces differ between spellings: %r' % results))
    shutil.rmtree(root, ignore_errors=True)
    return viol, n, outcomes


def run(ctx):
    tl = trees(3, 2) if ctx.thorough else [t for t in trees(3, 2) if sum(1 for _ in layout(t)) <= 6]
    shards = []
    for backend in ('make', 'ninja'):
        for ch in core.chunks(core.seeded_order(tl, ctx.seed), max(1, len(tl) // (2 * core.NCPU))):
            shards.append(('tree', (ch, backend)))
    decls = declarations(ctx.thorough)
    for ch in core.chunks(core.seeded_order(decls, ctx.seed), max(1, len(decls) // (3 * core.NCPU))):
        shards.append(('arg', ch))
    res = core.pmap(_dispatch, shards)
    tv, av = [], []
    nt = na = 0
    outcomes = set()
    for (k, a), r in zip(shards, res):
        if k == 'tree':
            tv += r[0]
            nt += r[1]
        else:
            av += r[0]
            na += r[1]
            outcomes |= r[2]
    for kind, vs in (('submodule', tv), ('arguments', av)):
        vs.sort(key=lambda v: (v[0], len(v[1]), v[1]))
        seen = set()
        for law, label, detail in vs:
            if law in seen:
                continue
            seen.add(law)
            ctx.violation('C19:%s:%s:%s' % (kind, law, label), '%s: %s: %s' % (law, label, detail),
                          case=dict(kind=kind, label=label), observed=detail)
    if nt < 50 or na < 200 or len(outcomes) < 10:
        raise core.HarnessError('vacuous C19 exploration %r' % ((nt, na, len(outcomes)),))
    ctx.level = 'exploration'
    ctx.cov.update(
        evaluations=nt + na, distinct_nontrivial=len(outcomes) + len(tl),
        rule='(a) all %d trees of submodule inclusions with depth <= 3 and branching <= 2 (second child reached as '
             'm0/../m1, an export-only sibling included from every inner node), in build.bfg and in options.bfg, both '
             'backends: each script probes every other script\'s global, function and class names before and after '
             'each submodule() call, checks the exports it receives, declares one input and two outputs; the build is '
             'run and created files / read inputs are compared with the model. (b) %d argument declarations (action x '
             'type x default x choices x dest x name) x all command lines of <= 2 occurrences x every plain/--x- '
             'spelling: identical argv namespaces; explicit and make-triggered regeneration see the configure-time '
             'namespace. distinct = distinct namespaces observed + trees' % (len(tl), len(decls)),
        samples=[dict(tree=repr(tl[len(tl) // 2])), dict(declaration=decl_src(*decls[len(decls) // 2]).strip())],
        exhaustive=True, submodule_configures_and_builds=nt, argument_runs=na,
        distinct_namespaces=len(outcomes),
        states=len(outcomes) + len(tl), transitions=nt + na, traces_validated_against_impl=nt + na)
    ctx.assumptions += ['argument names colliding with bfg9000\'s own options are outside the domain (the docs '
                        'require --x- there)']


def _dispatch(sh):
    k, a = sh
    return (_tree_shard if k == 'tree' else _arg_shard)(a)


def replay(rec):
    print(json.dumps(rec, indent=1)[:2000])
    ctx = core.Ctx('C19', rec.get('tier', 'quick'), 0)
    run(ctx)
    return rec['key'] not in ctx._viol
