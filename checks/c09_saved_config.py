"""C09 — the saved configuration is the only input of later regenerations.

(a) explicit-state BFS over operation sequences on the real EnvVarDict against a plain dict.
(b) Environment.save/load round-trip over a product of configure options (real configure).
(c) older snapshot formats: downgrade a current snapshot with the inverse of each documented
    upgrade step, load, compare.
(d) end to end: regenerate / env / run under every one-at-a-time ambient-environment change and
    from several working directories must reproduce the configure-time result.
"""
import copy
import itertools
import json
import os
import shutil

from kernel import core, bfg, proj

KEYS = ['A', 'B', 'C']
VALS = ['x', 'z']


# ------------------------------------------------------------------ (a)

def ops_alphabet():
    ops = []
    for k in KEYS:
        for v in VALS:
            ops.append(('setitem', k, v))
            ops.append(('setdefault', k, v))
            ops.append(('update_dict', k, v))
            ops.append(('update_kw', k, v))
            ops.append(('ior', k, v))
        ops.append(('delitem', k))
        ops.append(('pop', k))
        ops.append(('pop_default', k))
    ops += [('popitem',), ('clear',), ('reset',), ('roundtrip',), ('read_changes',)]
    return ops


def apply_impl(d, op, EnvVarDict):
    """-> (new object, result-or-exception-name)"""
    name = op[0]
    try:
        if name == 'setitem':
            d[op[1]] = op[2]
            r = None
        elif name == 'setdefault':
            r = d.setdefault(op[1], op[2])
        elif name == 'update_dict':
            r = d.update({op[1]: op[2]})
        elif name == 'update_kw':
            r = d.update(**{op[1]: op[2]})
        elif name == 'ior':
            d |= {op[1]: op[2]}
            r = None
        elif name == 'delitem':
            del d[op[1]]
            r = None
        elif name == 'pop':
            r = d.pop(op[1])
        elif name == 'pop_default':
            r = d.pop(op[1], 'DEF')
        elif name == 'popitem':
            r = d.popitem()
        elif name == 'clear':
            r = d.clear()
        elif name == 'reset':
            r = d.reset()
        elif name == 'roundtrip':
            d = EnvVarDict.from_json(json.loads(json.dumps(d.to_json())))
            r = None
        elif name == 'read_changes':
            d.changes
            r = None
    except KeyError:
        r = 'KeyError'
    return d, r


def apply_model(cur, init, op):
    name = op[0]
    try:
        if name in ('setitem', 'update_dict', 'update_kw', 'ior'):
            cur[op[1]] = op[2]
            return None
        if name == 'setdefault':
            return cur.setdefault(op[1], op[2])
        if name == 'delitem':
            del cur[op[1]]
            return None
        if name == 'pop':
            return cur.pop(op[1])
        if name == 'pop_default':
            return cur.pop(op[1], 'DEF')
        if name == 'popitem':
            return cur.popitem()
        if name == 'clear':
            cur.clear()
            return None
        if name == 'reset':
            cur.clear()
            cur.update(init)
            return None
        return None
    except KeyError:
        return 'KeyError'


def apply_changes(init, changes):
    out = dict(init)
    for k, v in changes.items():
        if v is None:
            out.pop(k, None)
        else:
            out[k] = v
    return out


def canon_state(d):
    ch = d.__dict__.get('_changes')
    return (tuple(d.items()), tuple(sorted(d.initial.items())),
            None if ch is None else tuple(sorted(ch.items(), key=repr)))


def explore_envvardict(depth, seed):
    from bfg9000.environment import EnvVarDict
    ops = ops_alphabet()
    init = {'A': 'x', 'B': 'y'}

    def replay(hist):
        d = EnvVarDict(dict(init))
        cur = dict(init)
        for op in hist:
            d, _ = apply_impl(d, op, EnvVarDict)
            apply_model(cur, init, op)
        return d, cur
    d0, _ = replay([])
    seen = {canon_state(d0): []}
    frontier = [[]]
    viol = []
    transitions = 0
    for lvl in range(depth):
        nxt = []
        for hist in frontier:
            for op in ops:
                transitions += 1
                d, cur = replay(hist)
                d, r_impl = apply_impl(d, op, EnvVarDict)
                r_model = apply_model(cur, init, op)
                h2 = hist + [op]
                if r_impl != r_model:
                    viol.append(('result', h2, 'returned %r, dict returns %r' % (r_impl, r_model)))
                if dict(d) != cur or list(d.keys()) != list(cur.keys()):
                    viol.append(('contents', h2, '%r != %r' % (dict(d), cur)))
                if d.initial != init:
                    viol.append(('initial', h2, repr(d.initial)))
                st = canon_state(d)
                # perturbing invariants last (the object is discarded afterwards)
                got = apply_changes(d.initial, d.changes)
                if got != cur:
                    viol.append(('changes', h2, 'apply(initial, changes)=%r, current=%r, changes=%r'
                                 % (got, cur, d.changes)))
                rt = EnvVarDict.from_json(json.loads(json.dumps(d.to_json())))
                if dict(rt) != cur or rt.initial != init or \
                        apply_changes(rt.initial, rt.changes) != cur:
                    viol.append(('json', h2, 'round trip gives %r / %r' % (dict(rt), rt.changes)))
                if st not in seen:
                    seen[st] = h2
                    nxt.append(h2)
        frontier = nxt
    return dict(states=len(seen), transitions=transitions, viol=viol,
                sample=[list(o) for o in seen[sorted(seen, key=repr)[len(seen) // 2]]])


# ------------------------------------------------------------------ project

PROJECT = {
    'build.bfg': "opt = argv.opt\n"
                 # an include directory that is on the compiler's default search list only because of
                 # a variable of the configure-time environment (C_INCLUDE_PATH)
                 "inc = header_directory(Path(env.variables['SYSINC_DIR'], Root.absolute))\n"
                 "exe = executable('prog', ['main.c'], includes=[inc])\n"
                 "install(exe)\n"
                 "command('show', cmd=['echo', opt or 'none'])\n",
    'options.bfg': "argument('opt', default='dflt')\n",
    'main.c': 'int main(){return 0;}\n',
    'tc.bfg': "environ['TCVAR'] = environ.get('TCVAR', 'base') + '+tc'\n"
              "compile_options(['-DTC=1', '-DSP=a b'], 'c')\n"
              "link_options(['-Wl,-tc'])\n",
}

CONFIG_VARS = ['CC', 'CXX', 'CFLAGS', 'CXXFLAGS', 'CPPFLAGS', 'LDFLAGS', 'LDLIBS', 'AR', 'ARFLAGS',
               'PATH', 'DESTDIR', 'BFG9000', 'DEPFIXER', 'PKG_CONFIG', 'PKG_CONFIG_PATH',
               'LIBRARY_PATH', 'CPATH', 'PLATFORM', 'UNRELATED', 'C_INCLUDE_PATH']


def make_project(root):
    src = os.path.join(root, 'src')
    os.makedirs(src)
    bfg.write_tree(src, {k: v for k, v in PROJECT.items() if k != 'tc.bfg'})
    with open(os.path.join(root, 'tc.bfg'), 'w') as f:
        f.write(PROJECT['tc.bfg'])
    # a cross-compiling toolchain: without --prefix the absolute install directories are unset (null)
    with open(os.path.join(root, 'tc-cross.bfg'), 'w') as f:
        f.write("target_platform('linux', 'aarch64')\n" + PROJECT['tc.bfg'])
    return src


def primary_files(bld, backend):
    out = {}
    for n in (['Makefile'] if backend == 'make' else ['build.ninja']) + ['compile_commands.json']:
        p = os.path.join(bld, n)
        out[n] = open(p).read() if os.path.exists(p) else None
    return out


def env_fields(env):
    """Field-wise, comparable rendering of an Environment."""
    def pj(p):
        return None if p is None else (p.to_json(), bool(p.directory))
    return dict(
        bfgdir=pj(env.bfgdir), srcdir=pj(env.srcdir), builddir=pj(env.builddir),
        backend=env.backend, backend_version=str(env.backend_version),
        host=env.host_platform.to_json(), target=env.target_platform.to_json(),
        install_dirs={k.name: pj(v) for k, v in env.install_dirs.items()},
        toolchain=pj(env.toolchain.path), mopack=[pj(i) for i in env.mopack],
        library_mode=tuple(env.library_mode), compdb=env.compdb, extra_args=env.extra_args,
        variables=dict(env.variables), initial=dict(env.variables.initial))


def configs(thorough):
    backends = ['make', 'ninja']
    libmodes = [[], ['--enable-static'], ['--disable-shared', '--enable-static']]
    dirs = [[], ['--prefix=/op t/pre'], ['--bindir=/b in/'], ['--exec-prefix=/ex', '--libdir=/l/ib'],
            ['--includedir=/inc', '--datadir=/d ata', '--mandir=/man']]
    tcs = [False, True, 'cross']
    extra = [[], ['--opt=given'], ['--x-opt=a b']]
    compdb = [[], ['--disable-compdb']]
    out = []
    for b, lm, dr, tc, ex, cd in itertools.product(backends, libmodes, dirs, tcs, extra, compdb):
        if not thorough:
            # pairwise-complete reduction is NOT used: the quick tier is a smaller full product
            if lm == libmodes[2] or dr in dirs[3:] or cd:
                continue
            if tc == 'cross' and (lm or ex):
                continue
        out.append(dict(backend=b, args=lm + dr + cd, toolchain=tc, extra=ex))
    return out


def configure_with(root, cfg, stubbin, envextra, bld=None):
    src = os.path.join(root, 'src')
    bld = bld or os.path.join(root, 'bld')
    env = bfg.base_env(stubbin, extra=envextra)
    args = list(cfg['args'])
    if cfg['toolchain']:
        args += ['--toolchain', os.path.join(root, 'tc-cross.bfg' if cfg['toolchain'] == 'cross' else 'tc.bfg')]
    r = bfg.configure(src, bld, cfg['backend'], env, args=args, extra=cfg['extra'])
    return r, env, bld


E_VARS = {'CFLAGS': '-DE1 "-DQ=a b"', 'CPPFLAGS': '-DPP', 'LDFLAGS': '-Wl,-e1', 'LDLIBS': '-lm',
          'TCVAR': 'orig', 'EMPTY': '', 'EQ': 'a=b=c', 'UNI': 'é日', 'UNRELATED': 'u1',
          'DESTDIR': '/dest dir', 'SYSINC_DIR': '/opt/verif-sysinc', 'C_INCLUDE_PATH': '/opt/verif-sysinc'}


def _cfg_shard(arg):
    """(b)+(d) for one configuration."""
    from bfg9000.environment import Environment
    cfg, thorough = arg
    root = os.path.join(core.worker_dir(), 'c09')
    shutil.rmtree(root, ignore_errors=True)
    os.makedirs(root)
    make_project(root)
    stubbin = bfg.make_stubbin(os.path.join(root, 'bin'))
    viol = []
    n = 0
    label = '%s %s tc=%s %s' % (cfg['backend'], ' '.join(cfg['args']), cfg['toolchain'],
                                 ' '.join(cfg['extra']))
    r, E, bld = configure_with(root, cfg, stubbin, E_VARS)
    if r.rc != 0:
        return dict(viol=[('configure-failed', label, r.err[-300:])], n=1)
    base = primary_files(bld, cfg['backend'])
    # ---- (b) snapshot round trip
    env1 = Environment.load(bld)
    f1 = env_fields(env1)
    tmp = os.path.join(root, 'snap')
    os.makedirs(tmp, exist_ok=True)
    env1.save(tmp)
    bytes1 = open(os.path.join(tmp, '.bfg_environ')).read()
    env2 = Environment.load(tmp)
    f2 = env_fields(env2)
    n += 1
    if f1 != f2:
        diff = {k: (f1[k], f2[k]) for k in f1 if f1[k] != f2[k]}
        viol.append(('save-load-not-equal', label, repr(diff)[:400]))
    env2.save(tmp)
    if open(os.path.join(tmp, '.bfg_environ')).read() != bytes1:
        viol.append(('save-load-save-unstable', label, ''))
    if open(os.path.join(bld, '.bfg_environ')).read() != bytes1:
        viol.append(('load-save-differs-from-configure', label, ''))
    raw = json.load(open(os.path.join(bld, '.bfg_environ')))['data']['install_dirs']
    for k, v in raw.items():
        got = f1['install_dirs'].get(k)
        if (v is None) != (got is None) or (v is not None and list(got[0]) != list(v)):
            viol.append(('loaded-install-dir', label, '%s is saved as %r but loaded as %r' % (k, v, got)))
    # what configure was told must be what was saved
    want_vars = dict(E)
    if cfg['toolchain']:
        want_vars['TCVAR'] = 'orig+tc'
        want_vars['CFLAGS'] = "-DTC=1 '-DSP=a b'"
        want_vars['LDFLAGS'] = '-Wl,-tc'
    if f1['variables'] != want_vars:
        d = {k: (f1['variables'].get(k), want_vars.get(k)) for k in set(f1['variables']) | set(want_vars)
             if f1['variables'].get(k) != want_vars.get(k)}
        viol.append(('saved-variables', label, repr(d)[:300]))
    if f1['initial'] != dict(E):
        viol.append(('saved-initial-variables', label, ''))
    if f1['extra_args'] != cfg['extra']:
        viol.append(('saved-extra-args', label, repr(f1['extra_args'])))
    for a in cfg['args']:
        if a.startswith('--') and '=' in a:
            k, v = a[2:].split('=', 1)
            got = f1['install_dirs'][k.replace('-', '_')]
            if got != ([v.rstrip('/') + '/', 'absolute', False], True):
                viol.append(('saved-install-dir', label, '%s -> %r' % (a, got)))
    if f1['library_mode'] != ('--disable-shared' not in cfg['args'], '--enable-static' in cfg['args']):
        viol.append(('saved-library-mode', label, repr(f1['library_mode'])))
    if f1['compdb'] != ('--disable-compdb' not in cfg['args']):
        viol.append(('saved-compdb', label, repr(f1['compdb'])))
    # ---- (d) ambient environments
    ambients = [('same', dict(E))]
    for v in CONFIG_VARS:
        a = dict(E)
        a.pop(v, None)
        ambients.append(('unset ' + v, a))
        a = dict(E)
        a[v] = '/nonexistent/changed-' + v.lower()
        ambients.append(('change ' + v, a))
    a = {k: v for k, v in E.items() if k not in CONFIG_VARS}
    ambients.append(('unset all', a))
    a = dict(E)
    a.update({v: '/nonexistent/changed-' + v.lower() for v in CONFIG_VARS})
    ambients.append(('change all', a))
    if not thorough and (cfg['extra'] or len(cfg['args']) > 1):
        # quick: the per-variable ambients are run in full for the configurations with at most one
        # configure argument; the others get the joint ambients and three representative variables
        keep = ('same', 'unset all', 'change all', 'unset CC', 'change CC', 'unset CFLAGS', 'change CFLAGS',
                'unset PATH', 'change PATH')
        ambients = [x for x in ambients if x[0] in keep]
    harness_keep = ('PYTHONPATH', 'PYTHONHASHSEED', 'PYTHONDONTWRITEBYTECODE')
    cwds = [bld, os.path.join(root, 'src'), '/'] if thorough else [bld, '/']
    saved_env_text = None
    bfgfile = os.path.join(root, 'src', 'build.bfg')
    tick = [2000000000]
    modes = [('regenerate', cwd) for cwd in cwds] + [('lazy-after-edit', bld), ('lazy-unchanged', bld)]
    for (aname, amb), (mode, cwd) in itertools.product(ambients, modes):
        amb = dict(amb)
        for k in harness_keep:
            amb[k] = E[k]
        n += 1
        if mode == 'regenerate':
            r = bfg.run_inproc(['regenerate', bld], amb, cwd)
        else:
            if mode == 'lazy-after-edit':
                # a newer build.bfg (same content) forces the lazy path to regenerate for real
                proj.tick()
                os.utime(bfgfile)
                proj.tick()
            r = bfg.run_inproc(['regenerate', '--lazy', bld], amb, cwd)
        now = primary_files(bld, cfg['backend'])
        fnow = env_fields(Environment.load(bld)) if r.rc == 0 else None
        tag = '%s | ambient: %s' % (label, aname)
        bad = False
        if r.rc != 0:
            viol.append((mode + '-fails', tag, r.err[-300:]))
            bad = True
        elif now != base:
            which = [k for k in base if base[k] != now[k]]
            viol.append((mode + '-differs', tag, 'files differing from configure: %r' % which))
            bad = True
        elif fnow != f1:
            d = {k: (fnow[k], f1[k]) for k in f1 if fnow[k] != f1[k]}
            viol.append((mode + '-changes-saved-configuration', tag, repr(d)[:300]))
            bad = True
        if bad:
            # restore for the next ambient
            shutil.rmtree(bld)
            configure_with(root, cfg, stubbin, E_VARS)
        if mode != 'regenerate':
            continue
        r = bfg.run_inproc(['env', bld], amb, cwd)
        n += 1
        got = dict(l.split('=', 1) for l in r.out.splitlines() if '=' in l)
        if r.rc != 0 or got != f1['variables']:
            d = {k: (got.get(k), f1['variables'].get(k))
                 for k in set(got) | set(f1['variables']) if got.get(k) != f1['variables'].get(k)}
            viol.append(('env-command', tag, repr(d)[:300]))
    # `run` sees the saved variables (fresh process; one ambient per kind is enough to be exhaustive
    # over CONFIG_VARS because run only passes env=)
    for aname, amb in ambients[:1] + ambients[-2:]:
        amb = dict(amb)
        for k in harness_keep:
            amb[k] = E[k]
        for initial in (False, True):
            n += 1
            argv = ['run'] + (['-I'] if initial else []) + ['-B', bld, '--', '/usr/bin/env']
            p = bfg.run_cli(argv, amb, '/')
            got = dict(l.split('=', 1) for l in p.out.splitlines() if '=' in l)
            want = f1['initial'] if initial else f1['variables']
            if p.rc != 0 or got != want:
                d = {k: (got.get(k), want.get(k)) for k in set(got) | set(want)
                     if got.get(k) != want.get(k)}
                viol.append(('run-command' + ('-initial' if initial else ''),
                             '%s | ambient: %s' % (label, aname), repr(d)[:300]))
    shutil.rmtree(root, ignore_errors=True)
    return dict(viol=viol, n=n)


# ------------------------------------------------------------------ (c)

def downgrade(data, to_version):
    """Inverse of the documented upgrade steps: a v17 `data` dict -> version `to_version`."""
    d = copy.deepcopy(data)
    v = 17

    def step(n):
        return to_version < n <= v
    if step(17):
        for i in ('datadir', 'mandir'):
            d['install_dirs'].pop(i, None)
    if step(16):
        d.pop('compdb')
    if step(15):
        d.pop('mopack')
        d['initial_variables'] = d['variables']['initial']
        d['variables'] = d['variables']['current']
    if step(14):
        for i in ('host_platform', 'target_platform'):
            d[i] = d[i]['species']
    if step(13):
        d.pop('initial_variables')
        d.pop('toolchain')
    if step(12):
        d['platform'] = d.pop('host_platform')
        d.pop('target_platform')
    if step(11):
        for i in ('bfgdir', 'srcdir', 'builddir'):
            d[i] = d[i][:2]
        for i in d['install_dirs']:
            d['install_dirs'][i] = d['install_dirs'][i][:2]
    if step(10):
        d['install_dirs'].pop('exec_prefix')
        for i in ('bindir', 'libdir'):
            if d['install_dirs'][i][1] == 'exec_prefix':
                d['install_dirs'][i][1] = 'prefix'
    if step(9):
        d.pop('library_mode')
    if step(8):
        d.pop('extra_args')
    if step(7):
        d['bfgpath'] = [d.pop('bfgdir')[0] + 'bfg9000', 'absolute']
    if step(6):
        d['bfgpath'] = d['bfgpath'][0]
        d.pop('backend_version')
    if step(5):
        for i in ('srcdir', 'builddir'):
            d[i] = d[i][0]
    return d


def old_formats(ctxroot):
    from bfg9000.environment import Environment
    import platform as pyplatform
    viol = []
    n = 0
    root = os.path.join(ctxroot, 'c09old')
    shutil.rmtree(root, ignore_errors=True)
    os.makedirs(root)
    make_project(root)
    stubbin = bfg.make_stubbin(os.path.join(root, 'bin'))
    cfgs = [dict(backend='make', args=[], toolchain=False, extra=[]),
            dict(backend='make', args=['--prefix=/my pre', '--enable-static'], toolchain=False,
                 extra=['--opt=zz']),
            dict(backend='ninja', args=['--bindir=/bb', '--disable-compdb'], toolchain=True, extra=[])]
    for cfg in cfgs:
        r, E, bld = configure_with(root, cfg, stubbin, E_VARS)
        if r.rc:
            raise core.HarnessError('configure failed in old_formats: ' + r.err)
        state = json.load(open(os.path.join(bld, '.bfg_environ')))
        cur = env_fields(Environment.load(bld))
        for ver in range(4, 17):
            n += 1
            old = downgrade(state['data'], ver)
            d = os.path.join(root, 'old%d' % ver)
            os.makedirs(d, exist_ok=True)
            with open(os.path.join(d, '.bfg_environ'), 'w') as f:
                json.dump({'version': ver, 'data': old}, f)
            try:
                got = env_fields(Environment.load(d))
            except Exception as e:
                viol.append(('old-format-load-raises', 'v%d' % ver, repr(e)))
                continue
            exp = copy.deepcopy(cur)
            if ver < 17:
                # documented default: platform install dirs
                from bfg9000.platforms.target import platform_info
                plat = platform_info()
                from bfg9000.path import InstallRoot
                for i in ('datadir', 'mandir'):
                    p = plat.install_dirs[InstallRoot[i]]
                    exp['install_dirs'][i] = (p.to_json(), True)
            if ver < 16:
                exp['compdb'] = True
            if ver < 15:
                exp['mopack'] = []
            if ver < 14:
                for i in ('host', 'target'):
                    exp[i] = dict(exp[i], arch=pyplatform.machine())
            if ver < 13:
                exp['initial'] = dict(exp['variables'])
                exp['toolchain'] = None
            if ver < 10:
                exp['install_dirs']['exec_prefix'] = (['./', 'prefix', False], True)
                for i in ('bindir', 'libdir'):
                    j = exp['install_dirs'][i][0]
                    if j[1] == 'prefix':
                        exp['install_dirs'][i] = ([j[0], 'exec_prefix', j[2]], True)
            if ver < 9:
                exp['library_mode'] = (True, False)
            if ver < 8:
                exp['extra_args'] = []
            if ver < 6:
                from bfg9000.backends import list_backends
                exp['backend_version'] = str(list_backends()[cfg['backend']].version())
            if got != exp:
                diff = {k: (got[k], exp[k]) for k in exp if got[k] != exp[k]}
                viol.append(('old-format-differs', 'v%d %s' % (ver, ' '.join(cfg['args'])),
                             repr(diff)[:400]))
    # the repository's own v4 fixture
    fx = os.path.join(core.REPO, 'test', 'data', 'environment', 'v4')
    if os.path.isdir(fx):
        n += 1
        try:
            env = Environment.load(fx)
            f = env_fields(env)
            if f['srcdir'][0][0] != '/root/srcdir/' or f['variables'] != {'HOME': '/home/user'}:
                viol.append(('v4-fixture', 'v4', repr(f)[:300]))
        except Exception as e:
            viol.append(('v4-fixture-raises', 'v4', repr(e)))
    shutil.rmtree(root, ignore_errors=True)
    return viol, n


def run(ctx):
    depth = 5 if ctx.thorough else 4
    a = explore_envvardict(depth, ctx.seed)
    minimal = []
    for law, hist, detail in sorted(a['viol'], key=lambda v: (len(v[1]), v[0], repr(v[1]))):
        # report subsequence-minimal failing histories only
        if any(core.is_subseq(m, hist) for m in minimal):
            continue
        minimal.append(hist)
        ctx.violation('C09:envvardict:%s:%s' % (law, json.dumps(hist)),
                      'EnvVarDict after %r: %s' % (hist, detail), case=dict(history=hist),
                      observed=detail)
    cfgs = configs(ctx.thorough)
    order = core.seeded_order(range(len(cfgs)), ctx.seed)
    res = core.pmap(_cfg_shard, [(cfgs[i], ctx.thorough) for i in order])
    n_cfg = sum(r['n'] for r in res)
    allv = [v for r in res for v in r['viol']]
    ov, n_old = old_formats(core.sandbox_root())
    allv += ov
    seen = set()
    for law, label, detail in sorted(allv, key=lambda v: (v[0], len(v[1]), v[1])):
        amb = label.split('| ambient: ')[1] if '| ambient: ' in label else ''
        sig = (law, amb if 'fails' in law else '')
        if sig in seen:
            continue
        seen.add(sig)
        ctx.violation('C09:%s:%s' % (law, label), '%s (%s): %s' % (law, label, detail),
                      case=dict(config=label), observed=detail)
    if a['states'] < 50 or n_cfg < 100:
        raise core.HarnessError('vacuous C09 exploration')
    ctx.level = 'model_checking'
    ctx.cov.update(
        states=a['states'] + len(cfgs), transitions=a['transitions'] + n_cfg + n_old,
        traces_validated_against_impl=a['transitions'] + n_cfg + n_old,
        samples=[dict(envvardict_history=a['sample']), dict(configuration=cfgs[len(cfgs) // 2])],
        evaluations=a['transitions'] + n_cfg + n_old, distinct_nontrivial=a['states'],
        rule='(a) BFS to depth %d over %d operations on the real EnvVarDict (state = current items in order, '
             'initial, change log or "lazy"), reference model = dict; (b,d) full product of %d configurations x '
             '%d ambient environments (each configuration variable unset/changed one at a time, all at once) x '
             'working directories: regenerate must reproduce the configure-time build files byte for byte, env/run '
             'must show the saved variables; (c) %d downgraded snapshots (versions 4..16 x 3 configurations) + the '
             'v4 fixture' % (depth, len(ops_alphabet()), len(cfgs), 2 * len(CONFIG_VARS) + 3, n_old),
        exhaustive=True, envvardict_states=a['states'], envvardict_transitions=a['transitions'],
        configurations=len(cfgs), regenerate_env_run_invocations=n_cfg, old_format_loads=n_old)
    ctx.assumptions += [
        'ambient PYTHONPATH/PYTHONHASHSEED/PYTHONDONTWRITEBYTECODE are harness variables and kept fixed',
        'toolchain install_dirs()/target_platform() edits are not part of the replayed configuration (DESIGN §6 C08)',
        'mopack is broken in this image: configurations use --no-resolve-packages']


def replay(rec):
    case = rec['case']
    if 'history' in case:
        from bfg9000.environment import EnvVarDict
        init = {'A': 'x', 'B': 'y'}
        d = EnvVarDict(dict(init))
        cur = dict(init)
        for op in case['history']:
            d, r = apply_impl(d, tuple(op), EnvVarDict)
            rm = apply_model(cur, init, tuple(op))
            print(op, '->', r, '(dict: %r)' % (rm,))
        ok = dict(d) == cur and apply_changes(d.initial, d.changes) == cur
        print('current', dict(d), 'model', cur, 'changes', d.changes)
        return ok
    print(json.dumps(rec, indent=1)[:3000])
    ctx = core.Ctx('C09', rec.get('tier', 'quick'), 0)
    run(ctx)
    return rec['key'] not in ctx._viol
