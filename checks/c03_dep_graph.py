"""C03 — the generated dependency graph equals the graph the build script describes.

Shape B + per-program history exploration.  Every well-typed program with <= K steps
(gen/projgen.py) is configured for both backends; with the strict recording stub toolchain the
real make / refninja run: a full build, a repeated build, and -- from the built state -- one
incremental build per single-file modification of every source, header, data file and
intermediate, each compared (a) with the set of steps downstream of the file in the observed
data-flow graph and (b) with a from-scratch build of the modified tree.  Default / test / alias /
install goals are run from a clean tree and must execute exactly the closure of their declared
members.
"""
import json
import os
import shutil

from kernel import core, bfg, proj
from gen import projgen


def label(key):
    if isinstance(key, frozenset):
        return '+'.join(sorted(os.path.basename(k) for k in key))
    return '%s %s' % (key[1], ' '.join(key[2]))


def rel(p, pr):
    for base, name in ((pr.bld, 'bld'), (pr.src, 'src')):
        if p.startswith(base + '/'):
            return name + '/' + p[len(base) + 1:]
    return p


def explore_program(p, backend, root, differential=True):
    """-> (violations, n_builds, n_states)"""
    viol = []
    nb = 0

    def bad(law, detail):
        viol.append((law, backend, detail))
    pr = proj.Proj(root, backend, p.files, p.script())
    r = pr.configure()
    if r.rc != 0:
        return [('configure-rejected', backend, r.err.strip().splitlines()[-1][:200] if r.err.strip() else '')], 0, 0
    cfg_snap = os.path.join(root, 'snap-configured')
    proj.snapshot(pr.bld, cfg_snap)
    file_goals = [v.path for v in p.file_values()]
    goals = file_goals + sorted(p.aliases)
    # ---- (i) full build: one producer per file, nothing missing
    rc, out, recs = pr.run(goals)
    nb += 1
    if rc != 0:
        bad('full-build-fails', out[-300:])
        return viol, nb, 1
    if 'overriding recipe' in out or 'ignoring old recipe' in out or 'multiple rules generate' in out:
        bad('two-producers', out[-300:])
    steps = proj.steps_of(recs)
    producers = {}
    for s in steps:
        for o in s['outputs']:
            if o in producers:
                bad('two-producers', '%s written by two processes' % rel(o, pr))
            producers[o] = s['key']
    for g in file_goals:
        if pr.abspath(g) not in producers:
            bad('goal-not-produced', '%s was not written by any step' % g)
    # declared-only inputs (extra_deps): dependencies the command line does not show
    for consumer, dep in p.declared_deps:
        for s in steps:
            if pr.abspath(consumer) in s['outputs']:
                s['inputs'].add(pr.abspath(dep))
    all_keys = {s['key'] for s in steps}
    # a symlink / hardlink copy cannot be stale (it shares its referent's content and mtime):
    # re-running it is allowed, not demanded; its consumers are demanded as usual
    optional = {s['key'] for s in steps if s['tool'] == 'lnstub'}
    ao_files = {pr.abspath(v.path) for v in p.always}
    ao_cone = set()
    for s in steps:
        if s['outputs'] & ao_files:
            ao_cone.add(s['key'])
    ao_cone |= proj.downstream(steps, ao_files)
    # ---- (iii) a build right after a build does nothing
    rc, out, recs2 = pr.run(goals)
    nb += 1
    again = {s['key'] for s in proj.steps_of(recs2)}
    if rc != 0:
        bad('rebuild-fails', out[-300:])
    elif not ((ao_cone - optional) <= again <= ao_cone):
        bad('rebuild-not-noop', 'second build ran %r, expected %r'
            % (sorted(map(label, again)), sorted(map(label, ao_cone))))
    built_snap = os.path.join(root, 'snap-built')
    proj.snapshot(pr.bld, built_snap)
    src_snap = os.path.join(root, 'snap-src')
    proj.snapshot(pr.src, src_snap)
    # ---- (ii) every single-file modification
    sources = [os.path.join(pr.src, f) for f in sorted(p.files)]
    inter = sorted(o for o in producers)
    states = 0
    for f in sources + inter:
        is_src = f.startswith(pr.src + '/')
        proj.restore(built_snap, pr.bld)
        proj.restore(src_snap, pr.src)
        # a symlink / hardlink product is the same file as its referent: writing to one modifies
        # every name of that file (thorough run, K=3: a consumer of the referent re-ran, rightly)
        same = {g for g in sources + inter if os.path.exists(g) and os.path.samefile(g, f)} | {f}
        proj.modify(f)
        states += 1
        rc, out, recs3 = pr.run(goals)
        nb += 1
        ran = {s['key'] for s in proj.steps_of(recs3)}
        want = proj.downstream(steps, same) | ao_cone
        # a tool may legitimately re-run the producer of a hand-modified product (Ninja's
        # deps log notices that the output is newer than its recorded dependencies)
        allowed_extra = {producers[g] for g in same if g in producers}
        if rc != 0:
            bad('incremental-build-fails', 'after modifying %s: %s' % (rel(f, pr), out[-200:]))
            continue
        if not ((want - optional) <= ran <= want | allowed_extra):
            bad('rebuild-set', 'after modifying %s the build ran %r; steps downstream of it: %r'
                % (rel(f, pr), sorted(map(label, ran)), sorted(map(label, want))))
            continue
        if differential and is_src:
            # differential oracle: products equal those of a from-scratch build of this tree
            fresh = os.path.join(root, 'fresh')
            shutil.rmtree(fresh, ignore_errors=True)
            r2 = pr.configure(bld=fresh)
            rc2, out2, _ = pr.run(goals, bld=fresh)
            nb += 1
            if r2.rc != 0 or rc2 != 0:
                raise core.HarnessError('fresh build failed: %s %s' % (r2.err[-200:], out2[-200:]))
            for o in inter:
                a = open(o, 'rb').read() if os.path.exists(o) else None
                o2 = os.path.join(fresh, os.path.relpath(o, pr.bld))
                b = open(o2, 'rb').read() if os.path.exists(o2) else None
                if o in ao_files or producers[o] in ao_cone:
                    continue
                if a != b:
                    bad('stale-product', 'after modifying %s, %s differs from a from-scratch build'
                        % (rel(f, pr), rel(o, pr)))
            shutil.rmtree(fresh, ignore_errors=True)
    # ---- (iv)/(v) goals from a clean tree build exactly the closure of their members
    def from_clean(goal_targets, member_files, name, extra_procs=()):
        nonlocal nb
        proj.restore(cfg_snap, pr.bld)
        proj.restore(src_snap, pr.src)
        rc, out, recs4 = pr.run(goal_targets)
        nb += 1
        st = proj.steps_of(recs4)
        ran = {s['key'] for s in st if s['outputs']}
        procs = sorted((s['tool'], tuple(s['argv'])) for s in st if not s['outputs'])
        want = proj.upstream(steps, {pr.abspath(m) for m in member_files})
        if rc != 0:
            bad(name + '-fails', out[-300:])
        elif ran != want:
            bad(name + '-closure', 'goal %s ran %r, closure of its declared members %r is %r'
                % (goal_targets or 'default', sorted(map(label, ran)), sorted(member_files),
                   sorted(map(label, want))))
        return procs
    dm = [v.path for v in p.default_members() if v.type != projgen.PHONY]
    from_clean([], dm, 'default')
    from_clean(['all'], dm, 'all')
    for a, members in sorted(p.aliases.items()):
        mf = []
        for v in members:
            if v.type == projgen.PHONY:
                mf += [m.path for m in p.aliases.get(v.var, []) if m.type != projgen.PHONY]
            else:
                mf.append(v.path)
        from_clean([a], mf, 'alias')
    if p.tests or p.test_args:
        procs = from_clean(['test'], [v.path for v in p.tests + p.test_args], 'test')
        targs = sorted(argv[1] for t, argv in procs if t == 'rec' and argv[1:2] and argv[1].startswith('T'))
        if len(targs) != len(p.test_args):
            bad('test-processes', 'test goal ran %r for %d declared argument tests' % (targs, len(p.test_args)))
        texe = sorted(os.path.basename(a[1][0]) for a in procs if a[0] == 'testexe')
        if texe != sorted(v.path for v in p.tests):
            bad('test-processes', 'test goal started %r, declared tests %r'
                % (texe, sorted(v.path for v in p.tests)))
    if p.installs:
        procs = from_clean(['install'], dm, 'install')
        inst = sorted(os.path.basename(a) for t, argv in procs if t == 'doppel'
                      for a in argv[1:] if os.path.basename(a) in {v.path for v in p.installs}
                      and not a.startswith('/'))
        if inst != sorted(v.path for v in p.installs):
            bad('install-members', 'install invoked doppel for %r, declared %r'
                % (inst, sorted(v.path for v in p.installs)))
    for k, v in p.commands:
        procs = from_clean([k], [v.path], 'command')
        if not any(t == 'rec' for t, argv in procs):
            bad('command-not-run', k)
    shutil.rmtree(root, ignore_errors=True)
    return viol, nb, states


# the step templates of the first version of this check: depth 3 is explored over these (every
# template added later, after seeded changes, takes part up to depth 2)
BASE = ['obj', 'exe', 'slib', 'shlib', 'vshlib', 'step1', 'step2', 'stepao', 'step2ao', 'stepcmd', 'copy', 'alias',
        'command', 'test', 'testarg', 'default', 'install']


def all_programs(k):
    """k = 2: every program with <= 2 steps over the full alphabet; k = 3: those plus every program
    with 3 steps over BASE (de-duplicated on the script text, simplest first)"""
    progs = projgen.programs(2)
    if k >= 3:
        seen = {p.script() for p in progs}
        progs = progs + [p for p in projgen.programs(3, BASE) if p.script() not in seen]
    return progs


def _shard(arg):
    k, idxs, thorough = arg
    progs = all_programs(k)
    root = os.path.join(core.worker_dir(), 'c03')
    res = []
    for i in idxs:
        p = progs[i]
        for backend in ('make', 'ninja'):
            v, nb, st = explore_program(p, backend, root)
            res.append((i, backend, v, nb, st))
    return res


def run(ctx):
    k = 3 if ctx.thorough else 2
    progs = all_programs(k)
    idxs = core.seeded_order(range(len(progs)), ctx.seed)
    per = max(1, len(idxs) // (8 * core.NCPU))
    shards = [(k, ch, ctx.thorough) for ch in core.chunks(idxs, per)]
    res = core.pmap(_shard, shards)
    builds = states = 0
    rejected = 0
    allv = []
    for sh in res:
        for i, backend, v, nb, st in sh:
            builds += nb
            states += st
            for law, b, detail in v:
                if law == 'configure-rejected':
                    rejected += 1
                    continue
                allv.append((law, b, i, detail))
    # minimal witness per (law, backend): smallest program (fewest steps, first in canonical order)
    allv.sort(key=lambda t: (t[0], t[1], progs[t[2]].nsteps, t[2]))
    seen = set()
    for law, b, i, detail in allv:
        sig = (law, b, tuple(progs[i].kinds)[-1].split('+')[0])
        if sig in seen:
            continue
        seen.add(sig)
        ctx.violation('C03:%s:%s:%s' % (law, b, ' | '.join(progs[i].lines)),
                      '%s backend, program [%s]: %s: %s' % (b, ' | '.join(progs[i].lines), law, detail),
                      case=dict(backend=b, k=k, index=i, script=progs[i].script(),
                                files=progs[i].files), observed=detail)
    if len(progs) < 100 or states < 500:
        raise core.HarnessError('vacuous C03 exploration')
    if rejected > len(progs) // 2:
        raise core.HarnessError('%d of %d programs rejected at configure' % (rejected, 2 * len(progs)))
    ctx.level = 'model_checking'
    ctx.cov.update(
        states=states, transitions=builds, traces_validated_against_impl=builds,
        samples=[dict(script=progs[len(progs) // 3].script()), dict(script=progs[-1].script())],
        evaluations=builds, distinct_nontrivial=len(progs),
        rule=('all %d well-typed programs: <= 2 steps over the step alphabet %r' % (len(progs), projgen.FULL)) + (
            ', plus 3 steps over the templates %r' % (BASE,) if k >= 3 else '') + (
            '; both backends; per program: '
            'full build, repeated build, one incremental build per single-file modification of every source / '
            'header / data file / product (state = (program, modified file)), each compared with the observed '
            'downstream set and (for inputs) with a from-scratch build; default/all/alias/test/install/command '
            'goals from a clean tree against the closure of their declared members'),
        exhaustive=True, programs=len(progs), program_backend_rejected_at_configure=rejected,
        builds=builds)
    ctx.assumptions += [
        'refninja is the meaning of the Ninja manifest (Appendix A); the strict stub toolchain fails on '
        'missing inputs and writes content = hash(argv, input contents)',
        'a hand-modified product may have its own producer re-run (Ninja deps log): allowed, not demanded',
        'generated_source, pch and submodules are not in the step alphabet of this check']


def replay(rec):
    c = rec['case']
    progs = all_programs(c['k'])
    p = progs[c['index']]
    print(p.script())
    v, nb, st = explore_program(p, c['backend'], os.path.join(core.worker_dir(), 'c03r'))
    for x in v:
        print(x)
    return not [x for x in v if x[0] != 'configure-rejected']
