"""C16 — semantic options have their documented effect with the detected compiler.

Shape A on the finite option table with the REAL compilers (gcc, clang, g++, clang++, gfortran):
every semantic option value, alone and in all unordered pairs of values from different option
families, in every placement (per-target options, global options, together with a plain global
option and flags from the environment).  Oracle: probe programs -- the build succeeds and the
compiled program / object shows the documented effect.  Options a compiler genuinely lacks are
excluded at run time by probing the compiler with the documented flag spelling from its manual.
"""
import itertools
import json
import os
import re
import shutil
import subprocess

from kernel import core, bfg

PROBE_C = r'''
#include <stdio.h>
#define STR(x) #x
#define XSTR(x) STR(x)
#if defined(__has_include)
#  if __has_include("incprobe.h")
#    include "incprobe.h"
#  endif
#  if __has_include("sysprobe.h")
#    include "sysprobe.h"
#  endif
#endif
#ifdef __cplusplus
extern "C"
#endif
int altmain(void) { return 0; }
static int shifty(void) { int x = 5; return x << 33; }   /* warns by default */
struct ExtraCanary { int a; int b; };
static struct ExtraCanary extra_canary = { 1 };          /* -Wextra: missing initializer */
static int unused_param(int p) { return extra_canary.a * 0; }
int main(void) {
    int unused_var;                                       /* -Wall */
    printf("NAME=%s\n", XSTR(NAME));
#ifdef __cplusplus
    printf("STD=%ld\n", (long)__cplusplus);
#elif defined(__STDC_VERSION__)
    printf("STD=%ld\n", (long)__STDC_VERSION__);
#else
    printf("STD=0\n");
#endif
#ifdef __OPTIMIZE__
    printf("OPT=1\n");
#else
    printf("OPT=0\n");
#endif
#ifdef __OPTIMIZE_SIZE__
    printf("OPTSIZE=1\n");
#else
    printf("OPTSIZE=0\n");
#endif
#if defined(__SANITIZE_ADDRESS__)
    printf("ASAN=1\n");
#elif defined(__has_feature)
#  if __has_feature(address_sanitizer)
    printf("ASAN=1\n");
#  else
    printf("ASAN=0\n");
#  endif
#else
    printf("ASAN=0\n");
#endif
#ifdef FROM_PCH
    printf("PCH=%d\n", FROM_PCH);
#else
    printf("PCH=0\n");
#endif
#ifdef INC_PROBE
    printf("INC=%d\n", INC_PROBE);
#endif
#ifdef SYS_PROBE
    printf("SYSINC=%d\n", SYS_PROBE);
#endif
#ifdef GLOBAL_PLAIN
    printf("GLOBAL_PLAIN=1\n");
#endif
#ifdef ENV_FLAG
    printf("ENV_FLAG=1\n");
#endif
    return shifty() * 0 + unused_param(0);
}
'''
MATH_C = r'''
#include <math.h>
#include <stdio.h>
int main(int argc, char **argv) { volatile double x = argc + 8.0; printf("POW=%d\n", (int)pow(x, 2.0)); return 0; }
'''
LIB_C = r'''
int lib_pic(void) {
#ifdef __PIC__
    return 1;
#else
    return 0;
#endif
}
'''
LIBMAIN_C = r'''
#include <stdio.h>
int lib_pic(void);
int main(void) { printf("PIC=%d\n", lib_pic()); return 0; }
'''
# header directories for include_dir: the "system" one is not warning-clean, which only a
# system include directory (-isystem) hides
INC_FILES = {'inc/incprobe.h': '#define INC_PROBE 7\n',
             'sysinc/sysprobe.h': '#define SYS_PROBE 1\nstatic inline int sysprobe_is_not_clean(void) '
                                  '{ int x = 5; return x << 33; }\n'}
PROBE_F = "program p\n  print *, 'FORTRAN_OK'\nend program p\n"

# (key, family, placement kind, script expression, checker name, languages)
C_STDS = [('c99', 199901), ('c11', 201112), ('c17', 201710), ('gnu11', 201112)]
CXX_STDS = [('c++11', 201103), ('c++14', 201402), ('c++17', 201703), ('c++20', 202002), ('gnu++11', 201103),
            ('gnu++14', 201402)]


def option_table(lang):
    t = []

    def add(key, family, where, expr, check):
        t.append(dict(key=key, family=family, where=where, expr=expr, check=check))
    add('define', 'define', 'c', "opts.define('NAME')", ('fact', 'NAME', '1'))
    add('define=42', 'define', 'c', "opts.define('NAME', '42')", ('fact', 'NAME', '42'))
    add('define=(empty)', 'define', 'c', "opts.define('NAME', '')", ('fact', 'NAME', ''))
    add('define=a+b', 'define', 'c', "opts.define('NAME', 'a+b')", ('fact', 'NAME', 'a+b'))
    for s, v in (C_STDS if lang == 'c' else CXX_STDS):
        add('std=' + s, 'std', 'c', "opts.std(%r)" % s, ('fact', 'STD', str(v)))
    add('warning=all', 'warning', 'c', "opts.warning('all')", ('warns', 'unused variable'))
    add('warning=extra', 'warning', 'c', "opts.warning('extra')", ('warns', 'initializer'))
    add('warning=all,error', 'warning', 'c', "opts.warning('all', 'error')", ('fails',))
    add('warning=disable', 'warning', 'c', "opts.warning('disable')", ('nowarn',))
    add('debug', 'debug', 'cl', "opts.debug()", ('section', '.debug_info'))
    add('optimize=disable', 'optimize', 'cl', "opts.optimize('disable')", ('fact', 'OPT', '0'))
    add('optimize=size', 'optimize', 'cl', "opts.optimize('size')", ('fact', 'OPTSIZE', '1'))
    add('optimize=speed', 'optimize', 'cl', "opts.optimize('speed')", ('facts', (('OPT', '1'), ('OPTSIZE', '0'))))
    add('optimize=speed,linktime', 'optimize', 'cl', "opts.optimize('speed', 'linktime')", ('lto',))
    add('sanitize', 'sanitize', 'cA', "opts.sanitize()", ('fact', 'ASAN', '1'))
    add('static', 'static', 'l', "opts.static()", ('static',))
    add('entry_point', 'entry', 'l', "opts.entry_point('altmain')", ('entry', 'altmain'))
    add('include_dir', 'include', 'c', "opts.include_dir(header_directory('inc'))", ('fact', 'INC', '7'))
    add('include_dir,system', 'sysinclude', 'c', "opts.include_dir(header_directory('sysinc', system=True))",
        ('sysinc',))
    return t


COMPILERS = [('c', 'gcc', {'CC': 'gcc'}), ('c', 'clang', {'CC': 'clang'}),
             ('c++', 'g++', {'CXX': 'g++'}), ('c++', 'clang++', {'CXX': 'clang++'})]


def compiler_supports(cc, lang, entry, scratch):
    """run-time exclusion: does the compiler itself accept the DOCUMENTED flag for this option?"""
    doc = {'optimize=size': ['-Os'], 'optimize=speed,linktime': ['-O3', '-flto'], 'sanitize': ['-fsanitize=address'],
           'static': ['-static'], 'debug': ['-g'], 'optimize=speed': ['-O3'], 'optimize=disable': ['-O0']}
    key = entry['key']
    if key.startswith('std='):
        flags = ['-std=' + key[4:]]
    elif key in doc:
        flags = doc[key]
    else:
        return True
    src = os.path.join(scratch, 'sup.' + ('c' if lang == 'c' else 'cpp'))
    with open(src, 'w') as f:
        f.write('int main(void){return 0;}\n')
    p = subprocess.run([cc] + flags + [src, '-o', os.path.join(scratch, 'sup.out')],
                       stdout=subprocess.DEVNULL, stderr=subprocess.DEVNULL)
    return p.returncode == 0


DOC_FLAGS = {'optimize=size': ['-Os'], 'optimize=speed,linktime': ['-O3', '-flto'], 'sanitize': ['-fsanitize=address'],
             'static': ['-static'], 'debug': ['-g'], 'optimize=speed': ['-O3'], 'optimize=disable': ['-O0']}


def pair_supported(cc, lang, keys, scratch):
    """does the compiler accept the documented flags of all these options TOGETHER?"""
    if len(keys) < 2:
        return True
    flags = []
    for k in keys:
        flags += DOC_FLAGS.get(k, ['-std=' + k[4:]] if k.startswith('std=') else [])
    if len(flags) < 2:
        return True
    src = os.path.join(scratch, 'sup2.' + ('c' if lang == 'c' else 'cpp'))
    with open(src, 'w') as f:
        f.write('int main(void){return 0;}\n')
    p = subprocess.run([cc] + flags + [src, '-o', os.path.join(scratch, 'sup2.out')],
                       stdout=subprocess.DEVNULL, stderr=subprocess.DEVNULL)
    return p.returncode == 0


def target_line(i, entries, srcname):
    copts = [e['expr'] for e in entries if 'c' in e['where']]
    lopts = [e['expr'] for e in entries if 'l' in e['where']]
    if any('A' in e['where'] for e in entries):
        # the documentation describes sanitize() as a compile option; the link needs the runtime
        lopts.append("'-fsanitize=address'")
    return "executable('t%d', [%r], compile_options=[%s], link_options=[%s])" % (
        i, srcname, ', '.join(copts), ', '.join(lopts))


def run_target(bld, env, name):
    rc, out = bfg.run_tool(['make', name], bld, env, timeout=120)
    facts = {}
    if rc == 0:
        p = subprocess.run([os.path.join(bld, name)], stdout=subprocess.PIPE, stderr=subprocess.PIPE, text=True,
                           env={'ASAN_OPTIONS': 'detect_leaks=0'})
        for l in p.stdout.splitlines():
            if '=' in l:
                k, v = l.split('=', 1)
                facts[k] = v
        facts['__rc__'] = str(p.returncode)
    return rc, out, facts


def check_effect(entry, rc, out, facts, bld, name, cc):
    c = entry['check']
    if c[0] == 'fails':
        return None if rc != 0 else 'the build succeeds although a warning should have become an error'
    if rc != 0:
        return 'the build fails: ' + out[-300:]
    if c[0] == 'fact':
        return None if facts.get(c[1]) == c[2] else '%s is %r, expected %r' % (c[1], facts.get(c[1]), c[2])
    if c[0] == 'facts':
        bad = [(k, facts.get(k), v) for k, v in c[1] if facts.get(k) != v]
        return None if not bad else 'facts %r' % bad
    if c[0] == 'sysinc':
        if facts.get('SYSINC') != '1':
            return 'the system include directory is not searched: SYSINC is %r' % facts.get('SYSINC')
        return None if 'sysprobe_is_not_clean' not in out else \
            'warnings from a system=True header directory are not suppressed (not passed as a system directory)'
    if c[0] == 'warns':
        return None if c[1] in out else 'no %r warning in the compiler output' % c[1]
    if c[0] == 'nowarn':
        return None if 'warning' not in out else 'warnings are still emitted: ' + out[-200:]
    if c[0] == 'section':
        o = subprocess.run(['readelf', '-S', os.path.join(bld, name)], stdout=subprocess.PIPE, text=True).stdout
        return None if c[1] in o else 'no %s section in the linked program' % c[1]
    if c[0] == 'lto':
        objs = [os.path.join(b, f) for b, ds, fs in os.walk(os.path.join(bld, name + '.int')) for f in fs
                if f.endswith('.o')]
        for ofile in objs:
            o = subprocess.run(['readelf', '-S', ofile], stdout=subprocess.PIPE, stderr=subprocess.PIPE, text=True)
            f = subprocess.run(['file', ofile], stdout=subprocess.PIPE, text=True).stdout
            if '.gnu.lto_' in o.stdout or 'LLVM' in f:
                return None
        return 'no link-time-optimisation payload in the object files'
    if c[0] == 'static':
        f = subprocess.run(['file', os.path.join(bld, name)], stdout=subprocess.PIPE, text=True).stdout
        return None if 'statically linked' in f or 'static-pie' in f else 'program is not statically linked: ' + f
    if c[0] == 'entry':
        h = subprocess.run(['readelf', '-h', os.path.join(bld, name)], stdout=subprocess.PIPE, text=True).stdout
        m = re.search(r'Entry point address:\s+0x([0-9a-f]+)', h)
        nm = subprocess.run(['nm', os.path.join(bld, name)], stdout=subprocess.PIPE, text=True).stdout
        s = re.search(r'^([0-9a-f]+) \w ' + c[1] + '$', nm, re.M)
        if not m or not s:
            return 'cannot read entry point / symbol'
        return None if int(m.group(1), 16) == int(s.group(1), 16) else \
            'ELF entry 0x%s is not %s (0x%s)' % (m.group(1), c[1], s.group(1))
    raise core.HarnessError('unknown check %r' % (c,))


def _shard(arg):
    lang, ccname, ccenv, placement, groups = arg
    root = os.path.join(core.worker_dir(), 'c16')
    shutil.rmtree(root, ignore_errors=True)
    os.makedirs(root)
    ext = 'c' if lang == 'c' else 'cpp'
    table = {e['key']: e for e in option_table(lang)}
    supported = {k: compiler_supports(ccname, lang, e, root) for k, e in table.items()}
    res = []       # (case label, failure or None)
    excluded = []
    src = os.path.join(root, 'src')
    bld = os.path.join(root, 'bld')
    envx = dict(ccenv)
    lines = []
    if placement == 'target+global+env':
        lines.append("global_options([opts.define('GLOBAL_PLAIN')], lang=%r)" % lang)
        envx['CFLAGS' if lang == 'c' else 'CXXFLAGS'] = '-DENV_FLAG -O2'    # a level from the environment: the script's own option comes later and wins
    cases = []
    if placement in ('target', 'target+global+env'):
        for i, keys in enumerate(groups):
            if not all(supported[k] for k in keys) or not pair_supported(ccname, lang, keys, root):
                excluded.append('+'.join(keys))
                continue
            lines.append(target_line(i, [table[k] for k in keys], 'probe.' + ext))
            cases.append((i, keys))
        os.makedirs(src)
        bfg.write_tree(src, dict(INC_FILES, **{'build.bfg': '\n'.join(lines) + '\n', 'probe.' + ext: PROBE_C}))
        env = bfg.base_env(extra=envx)
        r = bfg.configure(src, bld, 'make', env)
        if r.rc != 0:
            for i, keys in cases:
                res.append(('+'.join(keys), 'configure fails: ' + r.err.strip()[-300:]))
            return lang, ccname, placement, res, excluded
        for i, keys in cases:
            rc, out, facts = run_target(bld, env, 't%d' % i)
            for k in keys:
                msg = check_effect(table[k], rc, out, facts, bld, 't%d' % i, ccname)
                if msg is None and placement == 'target+global+env' and rc == 0 and \
                        'entry_point' not in keys and \
                        (facts.get('GLOBAL_PLAIN') != '1' or facts.get('ENV_FLAG') != '1'):
                    msg = 'the plain global option / environment flag did not reach the compile: %r' % facts
                res.append(('+'.join(keys) + ' [' + k + ']', msg))
    else:   # global placement: one project per group
        for i, keys in enumerate(groups):
            if not all(supported[k] for k in keys):
                excluded.append('+'.join(keys))
                continue
            ents = [table[k] for k in keys]
            copts = [e['expr'] for e in ents if 'c' in e['where']]
            lopts = [e['expr'] for e in ents if 'l' in e['where']]
            if any('A' in e['where'] for e in ents):
                lopts.append("'-fsanitize=address'")
            script = ("global_options([%s], lang=%r)\nglobal_link_options([%s])\nexecutable('t0', ['probe.%s'])\n"
                      % (', '.join(copts), lang, ', '.join(lopts), ext))
            shutil.rmtree(src, ignore_errors=True)
            shutil.rmtree(bld, ignore_errors=True)
            os.makedirs(src)
            bfg.write_tree(src, dict(INC_FILES, **{'build.bfg': script, 'probe.' + ext: PROBE_C}))
            env = bfg.base_env(extra=envx)
            r = bfg.configure(src, bld, 'make', env)
            if r.rc != 0:
                res.append(('+'.join(keys), 'configure fails: ' + r.err.strip()[-300:]))
                continue
            rc, out, facts = run_target(bld, env, 't0')
            for k in keys:
                res.append(('+'.join(keys) + ' [' + k + ']',
                            check_effect(table[k], rc, out, facts, bld, 't0', ccname)))
    shutil.rmtree(root, ignore_errors=True)
    return lang, ccname, placement, res, excluded


def _misc_shard(arg):
    """pic (shared library), library option, pch, fortran"""
    lang, ccname, ccenv = arg
    root = os.path.join(core.worker_dir(), 'c16m')
    shutil.rmtree(root, ignore_errors=True)
    src, bld = os.path.join(root, 'src'), os.path.join(root, 'bld')
    res = []
    if lang == 'fortran':
        bfg.write_tree(src, {'build.bfg': "executable('f0', ['p.f90'], compile_options=[opts.optimize('speed'), "
                                          "opts.debug()], link_options=[opts.debug()])\n", 'p.f90': PROBE_F})
        env = bfg.base_env(extra=ccenv)
        r = bfg.configure(src, bld, 'make', env)
        if r.rc != 0:
            res.append(('fortran optimize+debug', 'configure fails: ' + r.err[-300:]))
        else:
            rc, out = bfg.run_tool(['make', 'f0'], bld, env)
            o = subprocess.run([os.path.join(bld, 'f0')], stdout=subprocess.PIPE, text=True).stdout if rc == 0 else ''
            res.append(('fortran optimize+debug', None if 'FORTRAN_OK' in o else 'build/run fails: ' + out[-300:]))
        shutil.rmtree(root, ignore_errors=True)
        return lang, ccname, 'misc', res, []
    ext = 'c' if lang == 'c' else 'cpp'
    xc = 'extern "C" ' if lang != 'c' else ''
    script = ("lib = shared_library('plib', ['lib.%(e)s'])\n"
              "executable('usepic', ['libmain.%(e)s'], libs=[lib])\n"
              "executable('usem', ['math.%(e)s'], link_options=[opts.lib('m')])\n"
              "executable('usepch', ['pchuser.%(e)s'], pch='pch.h')\n"
              "executable('useinc', ['incuser.%(e)s'], includes=['inc dir'])\n"
              "executable('usethread', ['thr.%(e)s'], compile_options=[opts.pthread()], link_options=[opts.pthread()])\n"
              "extdir = directory('ext lib')\n"
              "executable('useext', ['extuser.%(e)s'], link_options=[opts.lib_dir(extdir), opts.lib('ext'), "
              "opts.rpath_dir(extdir.path)])\n"
              # lib_literal words keep their place among the libraries: -Bstatic ... -Bdynamic around
              # one library selects its static archive (both libext2.a and libext2.so exist)
              "executable('useext3', ['ext2user.%(e)s'], link_options=[opts.lib_dir(extdir), "
              "opts.lib_literal('-Wl,-Bstatic'), opts.lib('ext2'), opts.lib_literal('-Wl,-Bdynamic')])\n"
              "prebuilt = shared_library('ext lib/libext.so')\n"
              "executable('useext2', ['extuser.%(e)s'], libs=[prebuilt])\n" % dict(e=ext))
    # a library that exists before configure: found through lib_dir + lib, loaded through rpath_dir
    os.makedirs(os.path.join(src, 'ext lib'))
    with open(os.path.join(root, 'ext.c'), 'w') as f:
        f.write('int ext_value(void) { return 7; }\n')
    subprocess.run(['gcc', '-shared', '-fPIC', os.path.join(root, 'ext.c'), '-o',
                    os.path.join(src, 'ext lib', 'libext.so')], check=True)
    for val, kind in ((9, 'a'), (5, 'so')):
        with open(os.path.join(root, 'ext2.c'), 'w') as f:
            f.write('int ext2_value(void) { return %d; }\n' % val)
        if kind == 'a':
            subprocess.run(['gcc', '-c', os.path.join(root, 'ext2.c'), '-o', os.path.join(root, 'ext2.o')], check=True)
            subprocess.run(['ar', 'rcs', os.path.join(src, 'ext lib', 'libext2.a'), os.path.join(root, 'ext2.o')],
                           check=True)
        else:
            subprocess.run(['gcc', '-shared', '-fPIC', os.path.join(root, 'ext2.c'), '-o',
                            os.path.join(src, 'ext lib', 'libext2.so')], check=True)
    bfg.write_tree(src, {'build.bfg': script, 'lib.' + ext: xc + LIB_C.strip() + '\n',
                         'libmain.' + ext: LIBMAIN_C.replace('int lib_pic(void);', xc + 'int lib_pic(void);'),
                         'math.' + ext: MATH_C, 'pch.h': '#define FROM_PCH 7\n',
                         'pchuser.' + ext: '#include <stdio.h>\nint main(void){printf("PCH=%d\\n", FROM_PCH);return 0;}\n',
                         'inc dir/inc.h': '#define FROM_INC 9\n',
                         'incuser.' + ext: '#include <stdio.h>\n#include "inc.h"\nint main(void){printf("INC=%d\\n", FROM_INC);return 0;}\n',
                         'thr.' + ext: '#include <stdio.h>\n#include <pthread.h>\nstatic void *f(void *p){return p;}\n'
                                       'int main(void){pthread_t t; pthread_create(&t, 0, f, 0); pthread_join(t, 0);\n'
                                       '#ifdef _REENTRANT\nprintf("THR=1\\n");\n#else\nprintf("THR=0\\n");\n#endif\nreturn 0;}\n',
                         'ext2user.' + ext: '#include <stdio.h>\n' + xc + 'int ext2_value(void);\n'
                                            'int main(void){printf("EXT2=%d\\n", ext2_value());return 0;}\n',
                         'extuser.' + ext: '#include <stdio.h>\n' + xc + 'int ext_value(void);\n'
                                           'int main(void){printf("EXT=%d\\n", ext_value());return 0;}\n'})
    env = bfg.base_env(extra=ccenv)
    r = bfg.configure(src, bld, 'make', env)
    if r.rc != 0:
        res.append(('pic/lib/pch/include', 'configure fails: ' + r.err[-300:]))
    else:
        for name, want in (('usepic', 'PIC=1'), ('usem', 'POW='), ('usepch', 'PCH=7'), ('useinc', 'INC=9'),
                           ('usethread', 'THR=1'), ('useext', 'EXT=7'), ('useext2', 'EXT=7'),
                           ('useext3', 'EXT2=9')):
            rc, out = bfg.run_tool(['make', name], bld, env)
            o = ''
            if rc == 0:
                o = subprocess.run([os.path.join(bld, name)], stdout=subprocess.PIPE, text=True, env={}).stdout
            res.append((name, None if want in o else 'expected %r from the program; build rc=%d output %r %s'
                        % (want, rc, o, out[-200:] if rc else '')))
    shutil.rmtree(root, ignore_errors=True)
    return lang, ccname, 'misc', res, []


def groups_for(lang, pairs):
    table = option_table(lang)
    singles = [(e['key'],) for e in table]
    out = list(singles)
    if pairs:
        for a, b in itertools.combinations(table, 2):
            if a['family'] == b['family']:
                continue
            kinds = (a['check'][0], b['check'][0])
            if 'fails' in kinds:
                continue        # the build is meant to fail: nothing else is observable
            if 'entry' in kinds and any(k in ('fact', 'facts', 'sysinc') for k in kinds):
                continue        # a program entered at altmain prints no facts
            out.append((a['key'], b['key']))
    return out


def run(ctx):
    shards = []
    for lang, ccname, ccenv in COMPILERS:
        singles = groups_for(lang, False)
        for placement in ('target', 'global', 'target+global+env'):
            if placement == 'global':
                for ch in core.chunks(singles, 6):
                    shards.append(('opt', (lang, ccname, ccenv, placement, ch)))
            else:
                shards.append(('opt', (lang, ccname, ccenv, placement, singles)))
        allg = [g for g in groups_for(lang, True) if len(g) == 2]
        if ctx.thorough or ccname == 'gcc':
            for ch in core.chunks(allg, 40):
                shards.append(('opt', (lang, ccname, ccenv, 'target', ch)))
        shards.append(('misc', (lang, ccname, ccenv)))
    shards.append(('misc', ('fortran', 'gfortran', {'FC': 'gfortran'})))
    res = core.pmap(_dispatch, core.seeded_order(shards, ctx.seed))
    n = 0
    fails = []
    excluded = set()
    distinct = set()
    for lang, cc, placement, rows, exc in res:
        for e in exc:
            excluded.add('%s:%s' % (cc, e))
        for label, msg in rows:
            n += 1
            distinct.add((cc, placement, label))
            if msg is not None:
                fails.append((label.count('+'), label, cc, placement, msg))
    fails.sort()
    seen = set()
    for _, label, cc, placement, msg in fails:
        opt = label.split('[')[-1].rstrip(']') if '[' in label else label
        sig = (opt, cc)
        if sig in seen:
            continue
        seen.add(sig)
        ctx.violation('C16:%s:%s:%s' % (cc, placement, label),
                      'compiler %s, placement %s, options %s: %s' % (cc, placement, label, msg),
                      case=dict(compiler=cc, placement=placement, options=label), observed=msg)
    if n < 200:
        raise core.HarnessError('vacuous C16 exploration')
    ctx.level = 'exploration'
    ctx.cov.update(
        evaluations=n, distinct_nontrivial=len(distinct),
        rule='every value of the documented semantic options (define x3, std x4, warning x4, debug, optimize x4, '
             'sanitize, static, entry_point; plus pic / opts.lib / pch / include directory with a space / a Fortran '
             'program) for gcc, clang, g++, clang++ (gfortran), in the placements per-target options, global options, '
             'and per-target together with a plain global option and an environment flag; all unordered pairs of values '
             'from different option families (gcc and g++ in quick, all four compilers in thorough); oracle: probe '
             'programs built by the real make and executed / inspected with readelf, nm, file. distinct = '
             '(compiler, placement, option set, option checked)',
        samples=[dict(options='optimize=size+std=c11 [optimize=size]', compiler='gcc')],
        exhaustive=True, excluded_at_runtime=sorted(excluded),
        states=len(distinct), transitions=n, traces_validated_against_impl=n)
    ctx.assumptions += ['pthread and system-include options need package(), i.e. mopack, which is broken in this image',
                        'sanitize() is documented as a compile option: the probe adds the runtime to the link itself',
                        'options excluded at run time are those the compiler rejects in the spelling of its own manual']


def _dispatch(sh):
    k, a = sh
    return (_shard if k == 'opt' else _misc_shard)(a)


def replay(rec):
    print(json.dumps(rec, indent=1)[:2000])
    ctx = core.Ctx('C16', rec.get('tier', 'quick'), 0)
    run(ctx)
    return rec['key'] not in ctx._viol
