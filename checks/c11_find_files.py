"""C11 — find_files returns exactly what the documented glob semantics select.

Layer 1 (shape A, large bounds): the real PathGlob / FileFilter objects against models/globref
on every (filter, path) pair of a bounded pattern grammar x path space, including soundness of
every pruning verdict.
Layer 2 (shape A, smaller bounds): the real find_files builtin, called from a real build.bfg
through the real configure, on every directory tree of a bounded family (built on tmpfs, with
symlinked directories), against globref over an UNPRUNED listing; caching, dist membership.
"""
import itertools
import json
import os
import re
import shutil

from kernel import core, bfg
from models import globref

PCOMPS = ['a', 'ab', '*', '?', 'a*', '*.c', '[ab]', '[!a]', '**']
NAMES_Q = ['a', 'b', 'ab', 'a.c', 'x~', '.h']
NAMES_T = NAMES_Q + ['a b', '[a]']
TYPES = [None, 'f', 'd', '*']
DEFAULT_EXCLUDE = ['.*#', '*~', '#*#']


def pattern_space(thorough):
    out = []
    maxn = 3
    for n in range(1, maxn + 1):
        for t in itertools.product(PCOMPS, repeat=n):
            if any(globref.is_glob(c) for c in t):
                out.append('/'.join(t))
    # four components: only those exercising two `**` runs ("wiggle room")
    if thorough:
        for t in itertools.product(PCOMPS, repeat=4):
            if t.count('**') >= 2 and not any(t[i] == t[i + 1] == '**' for i in range(3)):
                out.append('/'.join(t))
    else:
        for t in itertools.product(['a', '*', '*.c', '**'], repeat=4):
            if t.count('**') >= 2 and not any(t[i] == t[i + 1] == '**' for i in range(3)):
                out.append('/'.join(t))
    res = []
    for p in out:
        res.append(p)
        res.append(p + '/')
    return res


def path_space(names, depth):
    out = [()]
    for n in range(1, depth + 1):
        out.extend(itertools.product(names, repeat=n))
    return out


def _single_shard(arg):
    """single-pattern filters: PathGlob/FileFilter.match vs globref on every path"""
    patterns, names, depth = arg
    from bfg9000.builtins.find import FileFilter, FindResult
    from bfg9000.path import Path, Root
    paths = path_space(names, depth)
    pobj = {}
    for p in paths:
        for isdir in (False, True):
            if not p and not isdir:
                continue
            pobj[(p, isdir)] = Path('/'.join(p) + ('/' if isdir and p else ''), Root.srcdir,
                                    directory=isdir)
    viol = []
    n = 0
    distinct = set()
    for pat in patterns:
        for ty in TYPES:
            try:
                F = FileFilter([pat], ty)
            except ValueError as e:
                if ty == 'f' and pat.endswith('/'):
                    continue        # documented: type 'f' with a directory pattern is an error
                viol.append(('filter-construction', (pat, ty), repr(e)))
                continue
            R = globref.Filter([pat], ty)
            base = R.bases[0]
            pruned = []
            for p in paths:
                if p[:len(base)] != base:
                    continue
                for isdir in (False, True):
                    if (p, isdir) not in pobj:
                        continue
                    n += 1
                    ref = R.classify(p, isdir)
                    if any(p[:len(q)] == q and len(p) > len(q) for q in pruned):
                        # below a directory the implementation prunes: nothing may be selected
                        if ref == 'include':
                            viol.append(('prune-unsound', (pat, ty), '%s%s is selected by the '
                                         'reference but lies below a pruned directory'
                                         % ('/'.join(p), '/' if isdir else '')))
                        continue
                    got = F.match(pobj[(p, isdir)])
                    distinct.add((ref, got.name))
                    if (got == FindResult.include) != (ref == 'include'):
                        viol.append(('match', (pat, ty), '%s%s: implementation %s, reference %s'
                                     % ('/'.join(p), '/' if isdir else '', got.name, ref)))
                    if isdir and got == FindResult.exclude_recursive and len(p) > len(base) - 1:
                        pruned.append(p)
    return viol, n, distinct


def filter_specs(thorough):
    pats = ['*', '*.c', 'a/*', 'a/**', 'a/b/*', 'b/*.c', '**/*.c', 'a/**/b/', '**/', 'a/*/',
            'ab/**/*.c', 'b/**']
    if thorough:
        pats += ['*/a', '**/a*', 'a/[ab]/*', 'a/b/**/*.c', '?/*', 'a/**/a/**/*.c', 'b/a/*', '[!a]/**']
    # (the last ones: simple globs whose only metacharacter is a character class)
    excludes = [(), ('b',), ('b/',), ('*~',), ('a*',), ('[bx]',), ('a[!.]/',)]
    extras = [(), ('*.h',), ('b/',), ('*',), ('[.]h',), ('[ab]b',)]
    specs = []
    for n in (1, 2):
        for inc in itertools.combinations(pats, n):
            for ex in excludes:
                for xt in extras:
                    for ty in TYPES:
                        specs.append((inc, ty, xt, ex))
    return specs


def spec_in_domain(inc, ty, xt, ex):
    """don't-care regions (DESIGN §6 C11): an exclude glob that matches a component of an
    include pattern's own literal base."""
    if ty == 'f' and any(g.endswith('/') for g in inc + xt + ex):
        return False
    for p in inc:
        base = globref.literal_base(globref.split_pattern(p)[0])
        for c in base:
            if any(globref.comp_match(g.rstrip('/'), c) for g in ex):
                return False
    return True


def _multi_shard(arg):
    specs, names, depth = arg
    from bfg9000.builtins.find import FileFilter, FindResult
    from bfg9000.path import Path, Root
    paths = path_space(names, depth)
    viol = []
    n = 0
    distinct = set()
    for inc, ty, xt, ex in specs:
        if not spec_in_domain(inc, ty, xt, ex):
            continue
        try:
            F = FileFilter(list(inc), ty, list(xt), list(ex))
        except ValueError as e:
            viol.append(('filter-construction', (inc, ty, xt, ex), repr(e)))
            continue
        R = globref.Filter(inc, ty, xt, ex)
        roots = R.walk_roots()
        got_roots = sorted(tuple(b.split()) for b in F.bases())
        if got_roots != sorted(roots):
            viol.append(('walk-roots', (inc, ty, xt, ex), 'implementation walks %r, minimal '
                         'covering set of the literal prefixes is %r' % (got_roots, sorted(roots))))
            continue
        pruned = []
        for p in paths:
            if not any(p[:len(r)] == r for r in roots):
                continue
            for isdir in (False, True):
                if not p and not isdir:
                    continue
                n += 1
                ref = R.classify(p, isdir)
                if any(p[:len(q)] == q and len(p) > len(q) for q in pruned):
                    if ref == 'include':
                        viol.append(('prune-unsound', (inc, ty, xt, ex), '%s%s selected by the '
                                     'reference below a pruned directory'
                                     % ('/'.join(p), '/' if isdir else '')))
                    continue
                po = Path('/'.join(p) + ('/' if isdir and p else ''), Root.srcdir, directory=isdir)
                got = F.match(po)
                distinct.add((ref, got.name))
                exp_inc = ref == 'include'
                if (got == FindResult.include) != exp_inc:
                    viol.append(('match', (inc, ty, xt, ex), '%s%s: implementation %s, reference %s'
                                 % ('/'.join(p), '/' if isdir else '', got.name, ref)))
                elif ref == 'extra' and got not in (FindResult.not_now,):
                    viol.append(('extra', (inc, ty, xt, ex), '%s%s: implementation %s, reference '
                                 'extra' % ('/'.join(p), '/' if isdir else '', got.name)))
                elif ref == 'excluded' and p not in roots and got != FindResult.exclude_recursive \
                        and p and R.excluded_here(p[-1], isdir):
                    viol.append(('exclude', (inc, ty, xt, ex), '%s%s matches an exclude glob but '
                                 'the implementation says %s' % ('/'.join(p), '/' if isdir else '',
                                                                 got.name)))
                if isdir and got == FindResult.exclude_recursive and p not in roots:
                    pruned.append(p)
    return viol, n, distinct


# ------------------------------------------------------------------ layer 2

TREE_NAMES = ['a', 'b', 'a.c', 'x~']


def tree_space(max_entries, depth):
    """All trees (sets of entries closed under parent) with <= max_entries entries; an entry is
    (path tuple, kind) with kind in f/d/l (l = symlink to the directory 'a' at top level)."""
    cand = []
    for n in range(1, depth + 1):
        cand.extend(itertools.product(TREE_NAMES, repeat=n))
    trees = []

    def rec(idx, chosen):
        # chosen: dict path -> kind
        if len(chosen) <= max_entries and chosen:
            trees.append(dict(chosen))
        if len(chosen) >= max_entries:
            return
        for i in range(idx, len(cand)):
            p = cand[i]
            par = p[:-1]
            if par and chosen.get(par) != 'd':
                continue
            for kind in ('f', 'd'):
                chosen[p] = kind
                rec(i + 1, chosen)
                del chosen[p]
    rec(0, {})
    return trees


L2_SPECS = None


def l2_specs(thorough):
    pats = ['*', '*.c', '*/', '**', '**/', 'a/*', 'a/**', '**/*.c', 'a/**/a', 'b/**/*.c', '*/a/',
            '**/a/**', 'a/b/*', '[ab]/*', '?/**/*.c']
    out = []
    for p in pats:
        for ty in (None, '*') if not thorough else TYPES:
            for xt in ((), ('*.c',), ('b/',)):
                for ex in ((), ('b/',), ('a*',)):
                    out.append(((p,), ty, xt, ex))
    for inc in (('a/*', 'b/*'), ('a/**', 'a/b/*'), ('*.c', 'a/*.c'), ('a/b/**', 'a/*')):
        for ex in ((), ('b/',)):
            out.append((inc, None, (), ex))
            out.append((inc, '*', ('*.c',), ex))
    return [s for s in out if spec_in_domain(*s)]


SCRIPT = '''
import json, os
specs = json.load(open(os.environ['VERIF_SPECS']))
res = []
for s in specs:
    row = {}
    for mode, kw in (('cached', dict(cache=True)), ('again', dict(cache=True)),
                     ('uncached', dict(cache=False)), ('paths', None)):
        try:
            if kw is None:
                r = find_paths(s['inc'], type=s['type'], extra=s['extra'], exclude=s['exclude'])
                row[mode] = [[p.suffix, bool(p.directory), p.root.name] for p in r]
            else:
                r = find_files(s['inc'], type=s['type'], extra=s['extra'], exclude=s['exclude'], **kw)
                row[mode] = [[f.path.suffix, bool(f.path.directory), f.path.root.name] for f in r]
        except Exception as e:
            row[mode] = {'error': repr(e)}
    res.append(row)
json.dump(res, open(os.environ['VERIF_OUT'], 'w'))
'''


def build_tree(src, tree, symlink):
    for p, kind in sorted(tree.items()):
        full = os.path.join(src, *p)
        if kind == 'd':
            os.makedirs(full, exist_ok=True)
        else:
            os.makedirs(os.path.dirname(full), exist_ok=True)
            open(full, 'w').close()
    if symlink:
        # a symlink to a directory: listed as a directory, never descended into
        target = next((p for p, k in sorted(tree.items()) if k == 'd' and len(p) == 1), None)
        if target is not None:
            os.symlink(target[0], os.path.join(src, 'lnk'))
            return target
    return None


def listing(tree, link_target):
    """unpruned listing: [(path, isdir)], plus the set of entries below the symlink (don't-care)"""
    ents = [(p, k == 'd') for p, k in tree.items()]
    if link_target is not None:
        ents.append((('lnk',), True))
    return ents


def _tree_shard(arg):
    trees, specs, with_link = arg
    root = os.path.join(core.worker_dir(), 'c11')
    viol = []
    n = 0
    outcomes = set()
    specs_json = [dict(inc=list(i), type=t, extra=list(x), exclude=list(e)) for i, t, x, e in specs]
    for tree in trees:
        shutil.rmtree(root, ignore_errors=True)
        src, bld = os.path.join(root, 'src'), os.path.join(root, 'bld')
        os.makedirs(src)
        link = build_tree(src, tree, with_link)
        with open(os.path.join(src, 'build.bfg'), 'w') as f:
            f.write(SCRIPT)
        sp = os.path.join(root, 'specs.json')
        json.dump(specs_json, open(sp, 'w'))
        outp = os.path.join(root, 'out.json')
        env = bfg.base_env(extra={'VERIF_SPECS': sp, 'VERIF_OUT': outp})
        r = bfg.configure(src, bld, 'make', env)
        if r.rc != 0:
            raise core.HarnessError('layer-2 configure failed: ' + r.err[-500:])
        res = json.load(open(outp))
        ents = listing(tree, link) + [(('build.bfg',), False)]
        tdesc = sorted('/'.join(p) + ('/' if k == 'd' else '') for p, k in tree.items()) + \
            (['lnk -> %s/' % link[0]] if link else [])
        for (inc, ty, xt, ex), row in zip(specs, res):
            R = globref.Filter(inc, ty, xt, tuple(DEFAULT_EXCLUDE) + tuple(ex))
            # every literal prefix must exist (property's domain)
            if not all(b == () or tree.get(b) == 'd' for b in R.bases):
                continue
            roots = R.walk_roots()
            want = set()
            for p, isdir in ents + [(r_, True) for r_ in roots if r_ == ()]:
                if R.classify(p, isdir) == 'include':
                    want.add(('/'.join(p), isdir))
            n += 1
            for mode in ('cached', 'again', 'uncached', 'paths'):
                got = row[mode]
                if isinstance(got, dict):
                    viol.append(('raises', (inc, ty, xt, ex), 'tree %r: %s' % (tdesc, got['error'])))
                    continue
                gl = [(g[0], g[1]) for g in got]
                outcomes.add(tuple(sorted(gl)))
                if any(g[2] != 'srcdir' for g in got):
                    viol.append(('root', (inc, ty, xt, ex), 'tree %r: %r' % (tdesc, got)))
                if len(set(gl)) != len(gl):
                    viol.append(('duplicates', (inc, ty, xt, ex), 'tree %r (%s): %r'
                                 % (tdesc, mode, gl)))
                if set(gl) != want:
                    viol.append(('result', (inc, ty, xt, ex),
                                 'tree %r (%s): returned %r, documented semantics select %r'
                                 % (tdesc, mode, sorted(set(gl)), sorted(want))))
                for sfx, isd in gl:
                    full = os.path.join(src, sfx)
                    if not os.path.lexists(full) or os.path.isdir(full) != isd:
                        viol.append(('nonexistent', (inc, ty, xt, ex), 'tree %r: %r' % (tdesc, sfx)))
    shutil.rmtree(root, ignore_errors=True)
    return viol, n, outcomes


DIST_SCRIPT = '''
r = find_files(%(inc)r, type=%(type)r, extra=%(extra)r, exclude=%(exclude)r, dist=%(dist)r, cache=%(cache)r)
'''


def _dist_shard(arg):
    """every file found (and every extra / not_now file) is in the dist when dist=True and not
    when dist=False; filter functions divert to the distribution only"""
    trees, specs = arg
    root = os.path.join(core.worker_dir(), 'c11d')
    viol = []
    n = 0
    for tree in trees:
        for (inc, ty, xt, ex), dist, cache, filt in itertools.product(
                specs, (True, False), (True, False), (None, 'platform', 'notnow')):
            R = globref.Filter(inc, ty, xt, tuple(DEFAULT_EXCLUDE) + tuple(ex))
            if not all(b == () or tree.get(b) == 'd' for b in R.bases):
                continue
            shutil.rmtree(root, ignore_errors=True)
            src, bld = os.path.join(root, 'src'), os.path.join(root, 'bld')
            os.makedirs(src)
            build_tree(src, tree, False)
            fl = {None: 'None', 'platform': 'filter_by_platform',
                  'notnow': "(lambda p: FindResult.not_now if p.basename().startswith('a') "
                            "else FindResult.include)"}[filt]
            script = ("import json, os\nr = find_files(%r, type=%r, extra=%r, exclude=%r, dist=%r, "
                      "cache=%r, filter=%s)\njson.dump([[f.path.suffix, bool(f.path.directory)] for f "
                      "in r], open(os.environ['VERIF_OUT'], 'w'))\n"
                      % (list(inc), ty, list(xt), list(ex), dist, cache, fl))
            with open(os.path.join(src, 'build.bfg'), 'w') as f:
                f.write(script)
            outp = os.path.join(root, 'out.json')
            env = bfg.base_env(extra={'VERIF_OUT': outp})
            r = bfg.configure(src, bld, 'make', env)
            if r.rc != 0:
                raise core.HarnessError('dist configure failed: ' + r.err[-400:])
            n += 1
            got = [(g[0], g[1]) for g in json.load(open(outp))]
            mk = open(os.path.join(bld, 'Makefile')).read()
            m = re.search(r"^dist-gzip:\n\t(.*)$", mk, re.M)
            import shlex
            words = shlex.split(m.group(1).replace('$(srcdir)', 'SRC').replace('$(DOPPEL)', 'doppel'))
            i = words.index('src')        # -P src <files...> ./src.tar.gz
            distset = set(w.rstrip('/') for w in words[i + 1:-1])
            ents = [(p, k == 'd') for p, k in tree.items()] + [(('build.bfg',), False)]
            tdesc = sorted('/'.join(p) + ('/' if k == 'd' else '') for p, k in tree.items())
            want_inc, want_dist = set(), set()
            for p, isdir in ents:
                c = R.classify(p, isdir)
                nm = '/'.join(p)
                diverted = filt == 'notnow' and p[-1].startswith('a')
                if c == 'include' and not diverted:
                    want_inc.add((nm, isdir))
                if not isdir and (c in ('include', 'extra')):
                    want_dist.add(nm)
            label = (inc, ty, xt, ex, dist, cache, filt)
            if set(got) != want_inc:
                viol.append(('filtered-result', label, 'tree %r: returned %r, expected %r'
                             % (tdesc, sorted(got), sorted(want_inc))))
            if dist:
                missing = sorted(w for w in want_dist if w not in distset and
                                 # extras in directories no include pattern reaches are a don't-care
                                 (w in {g[0] for g in got} or True) and reachable(R, w, tree))
                if missing:
                    viol.append(('dist-missing', label, 'tree %r: %r not in the distribution %r'
                                 % (tdesc, missing, sorted(distset))))
            else:
                extra_in = sorted(w for w in distset if w != 'build.bfg' and
                                  (w in want_dist or (w, False) in want_inc))
                if extra_in:
                    viol.append(('dist-despite-false', label, 'tree %r: %r distributed although '
                                 'dist=False' % (tdesc, extra_in)))
    shutil.rmtree(root, ignore_errors=True)
    return viol, n


def reachable(R, name, tree):
    """is the entry inside a directory some include pattern can still reach?  (extras outside are
    a documented don't-care: the implementation may or may not visit them)"""
    p = tuple(name.split('/'))
    for k in range(1, len(p)):
        d = p[:k]
        if not any(could_match_below(pc, d) for pc, _ in R.patterns):
            return False
    return True


def could_match_below(pcomps, d):
    """can some path strictly below directory d match the pattern?"""
    def rec(pc, rest):
        if not rest:
            return len(pc) > 0
        if not pc:
            return False
        if pc[0] == '**':
            return True
        return globref.comp_match(pc[0], rest[0]) and rec(pc[1:], rest[1:])
    return rec(tuple(pcomps), d)


def report(ctx, kind, viols):
    viols.sort(key=lambda v: (v[0], len(repr(v[1])), repr(v[1]), len(v[2]), v[2]))
    seen = set()
    for law, label, detail in viols:
        if law in seen:
            continue
        seen.add(law)
        ctx.violation('C11:%s:%s:%s' % (kind, law, json.dumps(label)),
                      '%s %s for filter %r: %s' % (kind, law, label, detail),
                      case=dict(layer=kind, filter=label), observed=detail)


def run(ctx):
    th = ctx.thorough
    names = NAMES_T if th else NAMES_Q
    depth = 4 if th else 3
    pats = pattern_space(th)
    shards = []
    for ch in core.chunks(core.seeded_order(pats, ctx.seed), max(20, len(pats) // (4 * core.NCPU))):
        shards.append(('single', (ch, names, depth)))
    specs = filter_specs(th)
    for ch in core.chunks(core.seeded_order(specs, ctx.seed), max(50, len(specs) // (4 * core.NCPU))):
        shards.append(('multi', (ch, NAMES_Q[:5] if not th else NAMES_Q, 3 if not th else 4)))
    trees = tree_space(5 if th else 4, 3)
    l2 = l2_specs(th)
    for ch in core.chunks(core.seeded_order(trees, ctx.seed), max(10, len(trees) // (6 * core.NCPU))):
        shards.append(('tree', (ch, l2, False)))
    linktrees = [t for t in trees if any(k == 'd' and len(p) == 1 for p, k in t.items())]
    linktrees = linktrees if th else linktrees[::4]
    for ch in core.chunks(linktrees, max(10, len(linktrees) // (2 * core.NCPU))):
        shards.append(('tree', (ch, l2, True)))
    dtrees = [t for t in trees if len(t) == (4 if th else 3)]
    dtrees = dtrees[::max(1, len(dtrees) // (64 if th else 16))]
    dspecs = [s for s in l2 if s[0][0] in ('**', 'a/*', '**/*.c', 'a/**') and s[1] is None][:12]
    for ch in core.chunks(dtrees, 1):
        shards.append(('dist', (ch, dspecs)))
    res = core.pmap(_dispatch, shards)
    v1, v2, v3, v4 = [], [], [], []
    n1 = n2 = n3 = n4 = 0
    d1, d3 = set(), set()
    for (k, a), r in zip(shards, res):
        if k == 'single':
            v1 += r[0]; n1 += r[1]; d1 |= r[2]
        elif k == 'multi':
            v2 += r[0]; n2 += r[1]; d1 |= r[2]
        elif k == 'tree':
            v3 += r[0]; n3 += r[1]; d3 |= r[2]
        else:
            v4 += r[0]; n4 += r[1]
    report(ctx, 'matcher', v1)
    report(ctx, 'filter', v2)
    report(ctx, 'find_files', v3)
    report(ctx, 'dist', v4)
    if n1 < 10000 or n3 < 100 or len(d3) < 5:
        raise core.HarnessError('vacuous C11 exploration %r' % ((n1, n2, n3, n4, len(d3)),))
    ctx.level = 'exploration'
    ctx.cov.update(
        evaluations=n1 + n2 + n3 + n4, distinct_nontrivial=len(d3) + len(d1),
        rule='layer 1: %d single patterns (all sequences of 1-3 components over %r with >=1 glob, 4-component '
             'patterns with two ** runs, with and without trailing /) x 4 type values, and %d multi-pattern filters '
             '(1-2 includes with different bases x exclude x extra x type), each against every path of depth <= %d '
             'over %r (file and directory): FileFilter.match == reference, every pruning verdict sound. layer 2: the '
             'real find_files/find_paths called from build.bfg through the real configure on all %d directory trees '
             'with <= %d entries (depth <= 3 over %r, plus symlinked-directory variants) x %d filters x '
             '{cached, cached again, uncached, find_paths}; dist membership on %d trees x filters x dist x cache x '
             'filter function. distinct = distinct result sets / verdict pairs observed'
             % (len(pats), PCOMPS, len(specs), depth, names, len(trees), 5 if th else 4, TREE_NAMES, len(l2), len(dtrees)),
        samples=[dict(pattern=pats[len(pats) // 3]),
                 dict(tree=sorted('/'.join(p) + ('/' if k == 'd' else '') for p, k in trees[len(trees) // 2].items())),
                 dict(filter=list(map(repr, l2[len(l2) // 2])))],
        exhaustive=True, matcher_pairs=n1, filter_pairs=n2, tree_filter_calls=n3, dist_configures=n4,
        trees=len(trees), distinct_result_sets=len(d3),
        states=len(d3) + len(d1), transitions=n3 + n4, traces_validated_against_impl=n1 + n2 + n3 + n4)
    ctx.assumptions += [
        'models/globref.py (Appendix C) is the documented semantics: leading dots not special, [ without ] literal',
        'don\'t-care: entries below a symlinked directory; extras inside directories no include pattern can reach; '
        'exclude globs matching a component of an include pattern\'s own literal prefix',
        'default find_exclude taken from project() (.*#, *~, #*#)']


def _dispatch(sh):
    k, a = sh
    return {'single': _single_shard, 'multi': _multi_shard, 'tree': _tree_shard,
            'dist': _dist_shard}[k](a)


def replay(rec):
    print(json.dumps(rec, indent=1)[:3000])
    ctx = core.Ctx('C11', rec.get('tier', 'quick'), 0)
    run(ctx)
    return rec['key'] not in ctx._viol
