"""C13 — build files are a deterministic function of project and configuration.

Shape E: the product hash seeds x invocation contexts (command form, working directory, how the
directories are named, unrelated environment) is enumerated completely; every run is a fresh
bfg9000 process into the same physical build directory; primary files must be byte-identical,
auxiliary files equal as sets of entries.
"""
import itertools
import json
import os
import shutil
import subprocess

from kernel import core, bfg, proj

BUILD_BFG = r'''
project('kitchen', version='1.2')
global_options(['-DGLOBAL=1', opts.define('G2', 'x y')], lang='c')
global_link_options(['-Wl,-g'])
hdrs = header_directory('inc', include='**/*.h')
hdrs2 = header_directory('inc2', include='*.h')
hdrs3 = header_directory('inc3', include='*.h')
srcs = find_files('lib/*.c', extra='*.txt')
data = find_files(['data/**', 'man/*.1'], type='f', exclude='*.bak')
libfoo = library('foo', files=srcs, includes=[hdrs], compile_options=[opts.define('BUILDING_FOO')],
                 version='1.2.3', soversion='1')
baz = shared_library('lib2/baz', files=['baz.c'], includes=[hdrs2, hdrs3])
qux = shared_library('lib3/deep/qux', files=['qux.c'], includes=[hdrs3], libs=[baz])
stat = static_library('bar', files=['bar.c'], includes=[hdrs, hdrs2], libs=[libfoo, baz], link_options=['-Wl,-bar'])
prog = executable('out/prog', files=['main.c'], libs=[stat, libfoo, baz, qux], includes=[hdrs, hdrs2, hdrs3])
gen = build_step(['gen.c', 'gen.h'], cmd=['gen', build_step.output, '--', build_step.input], files=['gen.in'])
multi = build_step(['gen/answer.c', 'include/answer.h', 'doc/answer.txt', 'gen/deep/x.txt'],
                   cmd=['gen', build_step.output, '--', build_step.input], files=['gen.in'])
prog2 = executable('prog2', files=['main2.c', gen[0], multi[0]], includes=[gen[1], multi[1]])
copies = copy_files(data, directory='share')
al = alias('everything', [prog, prog2] + list(copies))
command('hello', cmd=['echo', 'hi'], environment={'A': '1', 'B': '2', 'C': '3'})
test(prog, environment={'T': '1', 'U': '2'})
drv = test_driver(['drv', 'x', 'y'])
test(prog2, driver=drv)
test_deps(al)
install(prog, libfoo, baz, qux, hdrs, hdrs2)
install(generic_file('data/d1'), directory=Path('share/kitchen', InstallRoot.datadir))
install(man_page('man/k.1', compress=False))
pkg_config('kitchen', version='1.2', includes=[hdrs, hdrs2, hdrs3], libs=[libfoo, baz, qux, stat],
           # (the same dependency constrained twice, with equal versions spelt differently)
           requires=[('zlib', '>=1.0'), 'libpng', ('zlib', '>=1.0.0')],
           requires_private=[('bzip2', '>=1'), ('bzip2', '>=1.0')])
extra_dist(files=['README'], dirs=['man'])
submodule('sub')
for name in sorted(set(['o3', 'o1', 'o2'])):
    object_file(name, file='bar.c', options=[opts.define(k, v) for k, v in {'K1': 'a', 'K2': 'b'}.items()])
default(prog, prog2, argv.feature and copies or [])
'''

FILES = {
    'options.bfg': "argument('feature', action='enable', help='f')\nargument('name', default='n')\n",
    'sub/build.bfg': "s = static_library('subl', files=find_files('*.c'))\nexport(lib=s)\n",
}
for _f in ('lib/a.c lib/b.c lib/c.c lib/d.c lib/n.txt bar.c main.c main2.c gen.in inc/k.h inc/sub/s.h '
           'data/d1 data/d2 data/d3 data/x.bak man/k.1 README sub/s1.c sub/s2.c sub/s3.c baz.c qux.c inc2/z.h '
           'inc3/q.h').split():
    FILES[_f] = '// %s\n' % _f

PRIMARY = ['Makefile', 'build.ninja', 'compile_commands.json', 'pkgconfig/kitchen.pc',
           'pkgconfig/kitchen-uninstalled.pc']
AUX = ['.bfg_find_deps', '.bfg_find_cache']


def contexts(root, thorough):
    src, bld, parent = os.path.join(root, 'src'), os.path.join(root, 'bld'), root
    out = []

    def names(target, cwd):
        relp = os.path.relpath(target, cwd)
        return [target, relp, './' + relp + '/']
    for b in names(bld, src):
        out.append(('configure', src, [b]))
        out.append(('9k', src, [b]))
    for s in names(src, bld):
        out.append(('configure', bld, [s]))
    for cwd in (src, bld, parent, '/'):
        for s, b in itertools.product(names(src, cwd), names(bld, cwd)):
            out.append(('configure-into', cwd, [s, b]))
    return out


def collect(bld):
    out = {}
    for n in PRIMARY:
        p = os.path.join(bld, n)
        out[n] = open(p).read() if os.path.exists(p) else None
    p = os.path.join(bld, '.bfg_find_deps')
    out['.bfg_find_deps'] = sorted(open(p).read().split()) if os.path.exists(p) else None
    p = os.path.join(bld, '.bfg_find_cache')
    if os.path.exists(p):
        d = json.load(open(p))
        out['.bfg_find_cache'] = sorted(json.dumps(e, sort_keys=True) for e in d['data']['cache']) + \
            [json.dumps(d['data']['regen_files'], sort_keys=True)]
    else:
        out['.bfg_find_cache'] = None
    e = json.load(open(os.path.join(bld, '.bfg_environ')))
    for k in ('PYTHONHASHSEED', 'UNRELATED_VAR'):
        e['data']['variables']['initial'].pop(k, None)
        e['data']['variables']['current'].pop(k, None)
    out['.bfg_environ'] = json.dumps(e, sort_keys=True)
    out['__listing__'] = sorted(os.path.relpath(os.path.join(b, f), bld)
                                for b, ds, fs in os.walk(bld) for f in fs)
    return out


def _shard(arg):
    backend, seeds, thorough = arg
    root = os.path.join(core.worker_dir(), 'c13')
    shutil.rmtree(root, ignore_errors=True)
    src, bld = os.path.join(root, 'src'), os.path.join(root, 'bld')
    tree = dict(FILES)
    tree['build.bfg'] = BUILD_BFG
    bfg.write_tree(src, tree)
    stub = bfg.make_stubbin(os.path.join(root, 'bin'), extra=proj.STUB_EXTRA)
    res = []
    n = 0
    ctxs = contexts(root, thorough)
    for seed in seeds:
        for (cmd, cwd, dirs), unrelated in itertools.product(ctxs, (False, True)):
            if not thorough and unrelated and cmd != 'configure-into':
                continue
            shutil.rmtree(bld, ignore_errors=True)
            os.makedirs(bld)
            env = bfg.base_env(stub, extra={'CP': 'cpstub -f'})
            env['PYTHONHASHSEED'] = str(seed)
            if unrelated:
                env['UNRELATED_VAR'] = 'pid %d' % os.getpid()
            exe = os.path.join(bfg.VENV_BIN, '9k' if cmd == '9k' else 'bfg9000')
            argv = [os.path.join(bfg.VENV_BIN, 'python'), exe] + ([] if cmd == '9k' else [cmd]) + dirs + \
                ['--backend=' + backend, '--no-resolve-packages', '--enable-feature', '--name=zz']
            p = subprocess.run(argv, cwd=cwd, env=env, stdout=subprocess.PIPE, stderr=subprocess.PIPE,
                               text=True)
            n += 1
            label = 'seed=%d %s cwd=%s %s unrelated=%s' % (
                seed, cmd, cwd.replace(root, '<root>') or '/', [d.replace(root, '<root>') for d in dirs],
                unrelated)
            if p.returncode != 0:
                res.append((label, None, p.stderr[-400:]))
            else:
                # workers use different physical roots: make the root symbolic so that runs of
                # different workers are comparable (the root contains no character needing quotes)
                data = json.loads(json.dumps(collect(bld)).replace(json.dumps(root)[1:-1], '<root>'))
                res.append((label, data, ''))
    shutil.rmtree(root, ignore_errors=True)
    return backend, res, n


def canary(seeds):
    """how many distinct iteration orders of small str sets does this seed range produce?"""
    orders3, orders5 = set(), set()
    code = "print(list({'a.c','b.c','c.c'})); print(list({'lib/a.c','lib/b.c','bar.c','main.c','gen.c'}))"
    for s in seeds:
        out = subprocess.run([os.path.join(bfg.VENV_BIN, 'python'), '-c', code],
                             env={'PYTHONHASHSEED': str(s)}, stdout=subprocess.PIPE, text=True).stdout
        a, b = out.strip().split('\n')
        orders3.add(a)
        orders5.add(b)
    return len(orders3), len(orders5)


def run(ctx):
    seeds = list(range(64 if ctx.thorough else 8))
    shards = []
    per = 1 if not ctx.thorough else 4
    for backend in ('make', 'ninja'):
        for ch in core.chunks(seeds, per):
            shards.append((backend, ch, ctx.thorough))
    res = core.pmap(_shard, core.seeded_order(shards, ctx.seed))
    runs = 0
    distinct = set()
    ref = {}
    diffs = []
    for backend, rows, n in sorted(res, key=lambda r: (r[0], r[1][0][0] if r[1] else '')):
        runs += n
        for label, data, err in rows:
            if data is None:
                ctx.violation('C13:configure-fails:%s:%s' % (backend, label.split(' ', 1)[1]),
                              'configure failed in context %s: %s' % (label, err),
                              case=dict(backend=backend, context=label), observed=err)
                continue
            distinct.add(json.dumps(data, sort_keys=True))
            if backend not in ref:
                ref[backend] = (label, data)
                continue
            rl, rd = ref[backend]
            for k in rd:
                if rd[k] != data[k]:
                    diffs.append((backend, k, label, rl))
    seen = set()
    for backend, k, label, rl in sorted(diffs):
        if (backend, k) in seen:
            continue
        seen.add((backend, k))
        ctx.violation('C13:differs:%s:%s' % (backend, k),
                      '%s backend: %s differs between contexts [%s] and [%s] (%d contexts differ from the '
                      'first)' % (backend, k, rl, label, sum(1 for d in diffs if d[:2] == (backend, k))),
                      case=dict(backend=backend, file=k, a=rl, b=label))
    o3, o5 = canary(seeds)
    if runs < 100 or o3 < 2:
        raise core.HarnessError('vacuous C13 exploration (runs=%d, orders=%d)' % (runs, o3))
    ctx.level = 'exploration'
    ctx.cov.update(
        evaluations=runs, distinct_nontrivial=max(2, o3 + o5),
        rule='PYTHONHASHSEED in 0..%d x every valid (command form, working directory, directory naming) combination '
             '(configure from srcdir / from builddir, configure-into from srcdir/builddir/parent//, 9k; directories '
             'named absolute, relative, and with ./ and trailing /) x unrelated environment variable, both backends, '
             'each a fresh process into the same physical build directory; Makefile/build.ninja, '
             'compile_commands.json and the generated .pc files compared byte for byte, .bfg_find_deps/.bfg_find_cache '
             'as sets, .bfg_environ minus ambient variables, and the directory listing. distinct_nontrivial = number '
             'of distinct iteration orders of 3- and 5-element str sets the seed range produced (canary)'
             % (len(seeds) - 1),
        samples=[dict(context=r[1][0][0]) for r in res[:3]],
        exhaustive=True, fresh_process_runs=runs, distinct_outputs_observed=len(distinct),
        distinct_orders_of_3_set=o3, possible_orders_of_3_set=6,
        distinct_orders_of_5_set=o5, possible_orders_of_5_set=120,
        states=len(distinct), transitions=runs, traces_validated_against_impl=runs)
    ctx.assumptions += [
        '"all hash seeds" cannot be exhausted: the bound is the seed range; the canary counts show how many set '
        'iteration orders that range actually produced',
        'stub toolchain (deterministic compiler detection); mopack broken: --no-resolve-packages']


def replay(rec):
    print(json.dumps(rec, indent=1)[:2000])
    ctx = core.Ctx('C13', rec.get('tier', 'quick'), 0)
    run(ctx)
    return rec['key'] not in ctx._viol
