"""C15 — install / uninstall place and remove exactly the declared files.

Shape B.  All subsets (<= 2 quick / <= 3 thorough) of the installable kinds x install-directory
configurations (each of --prefix / --exec-prefix / --bindir / --libdir / --includedir /
--datadir / --mandir alone with a space in the path, all together) x DESTDIR (unset, plain, with
a space; at configure time for both backends, at install time for Make) x both backends.
The real `doppel` installs; stub toolchain, stub patchelf (recorded).  Oracle: after install the
file tree under DESTDIR + directories equals exactly the model's set (structure of header
directories kept, symlinks of versioned libraries, run-time dependency closure), source tree
untouched, patchelf asked to set the installed library directory; after uninstall (same DESTDIR)
every installed file is gone and nothing else changed.
"""
import itertools
import json
import os
import shutil

from kernel import core, bfg, proj

# item: name -> (script lines, source files, {root: [relative installed paths]}, needs patchelf rpath)
ITEMS = {
    'exe': (["exe = executable('prog', ['main.c'])", "install(exe)"], {'main.c': 'int main(){}\n'},
            {'bindir': ['prog']}),
    'exe-subdir': (["exe2 = executable('tools/prog2', ['main2.c'])", "install(exe2)"], {'main2.c': 'int main(){}\n'},
                   {'bindir': ['tools/prog2']}),
    'shared': (["shl = shared_library('foo', ['foo.c'])", "install(shl)"], {'foo.c': 'int foo;\n'},
               {'libdir': ['libfoo.so']}),
    'static': (["stl = static_library('bar', ['bar.c'])", "install(stl)"], {'bar.c': 'int bar;\n'},
               {'libdir': ['libbar.a']}),
    'versioned': (["ver = shared_library('ver', ['ver.c'], version='1.2.3', soversion='1')", "install(ver)"],
                  {'ver.c': 'int ver;\n'}, {'libdir': ['libver.so.1.2.3', 'libver.so.1', 'libver.so']}),
    'header': (["install(header_file('inc/a.h'))"], {'inc/a.h': '#define A\n'}, {'includedir': ['a.h']}),
    'header-dir': (["install(header_directory('hdr', include='**/*.h'))"],
                   {'hdr/x.h': '#define X\n', 'hdr/n/y.h': '#define Y\n', 'hdr/n/skip.txt': 'no\n'},
                   {'includedir': ['x.h', 'n/y.h']}),
    'man': (["install(man_page('doc/tool.1', compress=False))"], {'doc/tool.1': '.TH\n'},
            {'mandir': ['man1/tool.1']}),
    'man-gz': (["install(man_page('doc/zip.3', compress=True))"], {'doc/zip.3': '.TH\n'},
               {'mandir': ['man3/zip.3.gz']}),
    'data': (["install(generic_file('data/d.txt'), directory=Path('my data', InstallRoot.datadir))"],
             {'data/d.txt': 'd\n'}, {'datadir': ['my data/d.txt']}),
    'data-built': (["bd = build_step('gen/out.dat', cmd=['gen', build_step.output, '--', build_step.input], "
                    "files=['seed.in'])",
                    "install(bd, directory=Path('built', InstallRoot.datadir))"], {'seed.in': 's\n'},
                   {'datadir': ['built/gen/out.dat']}),
    'dual-after-exe': (["dual = library('dual', ['dual.c'])", "exed = executable('progd', ['md.c'], libs=[dual])",
                        "install(exed, dual)"], {'dual.c': 'int d;\n', 'md.c': 'int main(){}\n'},
                       {'bindir': ['progd'], 'libdir': ['libdual.so', 'libdual.a']}),
    'exe-with-dep': (["dep = shared_library('libs/dep3', ['dep3.c'])",
                      "exe3 = executable('prog3', ['m3.c'], libs=[dep])", "install(exe3)"],
                     {'dep3.c': 'int d;\n', 'm3.c': 'int main(){}\n'},
                     {'bindir': ['prog3'], 'libdir': ['libs/libdep3.so']}),
    # a built shared library AND a user-given run path: the installed program needs both
    'exe-dep-rpathdir': (["dep4 = shared_library('libs4/dep4', ['dep4.c'])",
                          "exe4 = executable('prog4', ['m4.c'], libs=[dep4], "
                          "link_options=[opts.rpath_dir(Path('/vendor/lib', Root.absolute))])", "install(exe4)"],
                         {'dep4.c': 'int d;\n', 'm4.c': 'int main(){}\n'},
                         {'bindir': ['prog4'], 'libdir': ['libs4/libdep4.so']}),
}
# item -> (installed program, sub-directory of libdir its library goes to, further run-path entries)
PATCHELF = {'exe-with-dep': ('prog3', 'libs', []), 'exe-dep-rpathdir': ('prog4', 'libs4', ['/vendor/lib'])}
DIR_OPTS = ['prefix', 'exec-prefix', 'bindir', 'libdir', 'includedir', 'datadir', 'mandir']


def dirs_for(cfg, base):
    """resolved install directories of a configuration (documented defaults of the platform)"""
    d = {}
    d['prefix'] = cfg.get('prefix', os.path.join(base, 'pfx'))
    d['exec-prefix'] = cfg.get('exec-prefix', d['prefix'])
    d['bindir'] = cfg.get('bindir', os.path.join(d['exec-prefix'], 'bin'))
    d['libdir'] = cfg.get('libdir', os.path.join(d['exec-prefix'], 'lib'))
    d['includedir'] = cfg.get('includedir', os.path.join(d['prefix'], 'include'))
    d['datadir'] = cfg.get('datadir', os.path.join(d['prefix'], 'share'))
    d['mandir'] = cfg.get('mandir', os.path.join(d['datadir'], 'man'))
    return d


def tree(root):
    out = {}
    for b, ds, fs in os.walk(root):
        for f in fs + [d for d in ds if os.path.islink(os.path.join(b, d))]:
            p = os.path.join(b, f)
            out[os.path.relpath(p, root)] = 'link' if os.path.islink(p) else 'file'
    return out


def _shard(arg):
    cases = arg
    res = []
    root = os.path.join(core.worker_dir(), 'c15')
    for backend, subset, cfgname, destmode in cases:
        shutil.rmtree(root, ignore_errors=True)
        os.makedirs(root)
        base = os.path.join(root, 'inst root')
        cfg = {}
        if cfgname == 'all':
            for o in DIR_OPTS:
                cfg[o] = os.path.join(base, 'all ' + o)
        elif cfgname != 'default':
            cfg[cfgname] = os.path.join(base, 'my ' + cfgname)
        if 'prefix' not in cfg:
            cfg['prefix'] = os.path.join(base, 'pfx')
        args = ['--%s=%s' % (k, v) for k, v in cfg.items()] + ['--enable-static']
        lines, files, want = [], {}, {}
        for it in subset:
            l, f, w = ITEMS[it]
            lines += l
            files.update(f)
            for k, v in w.items():
                want.setdefault(k, []).extend(v)
        dest_cfg = {'none': None, 'cfg-plain': os.path.join(root, 'dest'),
                    'cfg-space': os.path.join(root, 'dest dir'),
                    'make-time': None, 'make-time-over': os.path.join(root, 'dest cfg')}[destmode]
        dest_make = {'make-time': os.path.join(root, 'dest make'),
                     'make-time-over': os.path.join(root, 'dest make')}.get(destmode)
        extra_env = {'DESTDIR': dest_cfg} if dest_cfg else {}
        pr = proj.Proj(os.path.join(root, 'p'), backend, files, '\n'.join(lines) + '\n',
                       extra_env=extra_env, args=args)
        # the real doppel installs (the stub toolchain only provides compilers and patchelf)
        os.remove(os.path.join(pr.bin, 'doppel'))
        label = dict(backend=backend, items=list(subset), dirs=cfgname, destdir=destmode)
        r = pr.configure()
        if r.rc != 0:
            res.append((label, 'configure fails: ' + r.err.strip()[-300:]))
            continue
        dest = dest_make or dest_cfg or ''
        dirs = dirs_for({k: v for k, v in cfg.items()}, base)
        expected = {}
        for k, sufs in want.items():
            for s in sufs:
                expected[os.path.normpath(dest + os.path.join(dirs[k], s))] = k
        src_before = proj.contents(pr.src)
        watch = os.path.join(root, 'dest make') if dest_make else (dest_cfg or base)
        other = [p for p in (os.path.join(root, 'dest'), os.path.join(root, 'dest dir'),
                             os.path.join(root, 'dest cfg'), os.path.join(root, 'dest make'), base)
                 if p != watch]
        mk = ['DESTDIR=' + dest_make] if dest_make else []
        rc, out, recs = pr.run(['install'] + mk)
        if rc != 0:
            res.append((label, 'install fails: ' + out[-300:]))
            continue
        got = {os.path.join(watch, k): v for k, v in tree(watch).items()} if os.path.isdir(watch) else {}
        problems = []
        missing = sorted(set(expected) - set(got))
        extra = sorted(set(got) - set(expected))
        if missing:
            problems.append('not installed: %r' % [m.replace(root, '<root>') for m in missing])
        if extra:
            problems.append('installed but not declared: %r' % [m.replace(root, '<root>') for m in extra])
        stray = [p for p in other if os.path.isdir(p) and tree(p)]
        if stray:
            problems.append('files written outside DESTDIR: %r' % [s.replace(root, '<root>') for s in stray])
        if 'versioned' in subset and not missing:
            ld = os.path.normpath(dest + dirs['libdir'])
            for ln in ('libver.so.1', 'libver.so'):
                p = os.path.join(ld, ln)
                if not os.path.islink(p) or not os.path.exists(p):
                    problems.append('%s is not a valid symlink' % ln)
        if proj.contents(pr.src) != src_before:
            problems.append('the source tree was modified')
        for it, (prog, sub, more) in PATCHELF.items():
            if it not in subset:
                continue
            pe = [x for x in recs if x['tool'] == 'patchelf']
            wantfile = os.path.normpath(dest + os.path.join(dirs['bindir'], prog))
            wantrp = [os.path.normpath(os.path.join(dirs['libdir'], sub))] + more
            okp = [x for x in pe if '--set-rpath' in x['argv'] and
                   os.path.normpath(x['argv'][-1]) == wantfile and
                   [os.path.normpath(e) for e in x['argv'][x['argv'].index('--set-rpath') + 1].split(':')] == wantrp]
            if not okp:
                problems.append('patchelf was not asked to set the run path of %s to %s: %r'
                                % (wantfile.replace(root, '<root>'), ':'.join(wantrp).replace(root, '<root>'),
                                   [x['argv'][1:] for x in pe]))
        if not problems:
            bld_before = tree(pr.bld)
            rc, out, recs = pr.run(['uninstall'] + mk)
            if rc != 0:
                problems.append('uninstall fails: ' + out[-200:])
            else:
                left = tree(watch) if os.path.isdir(watch) else {}
                if left:
                    problems.append('uninstall leaves %r' % sorted(left)[:5])
                if tree(pr.bld) != bld_before or proj.contents(pr.src) != src_before:
                    problems.append('uninstall changed the build or source tree')
        res.append((label, '; '.join(problems) if problems else None))
    shutil.rmtree(root, ignore_errors=True)
    return res


def run(ctx):
    th = ctx.thorough
    names = list(ITEMS)
    subsets = [(n,) for n in names] + list(itertools.combinations(names, 2))
    if th:
        subsets += list(itertools.combinations(names, 3))
    cfgs = ['default'] + DIR_OPTS + ['all']
    cases = []
    for backend in ('make', 'ninja'):
        dests = ['none', 'cfg-plain', 'cfg-space'] + (['make-time', 'make-time-over'] if backend == 'make' else [])
        for sub in subsets:
            if len(sub) == 1:
                combos = itertools.product(cfgs, dests)
            elif th:
                combos = itertools.product(cfgs, dests) if len(sub) == 2 else \
                    [('default', 'none'), ('all', 'cfg-space')]
            else:
                combos = [('default', 'none'), ('all', 'cfg-space'), ('prefix', 'cfg-plain')] + \
                    ([('libdir', 'make-time')] if backend == 'make' else [])
            for c, d in combos:
                cases.append((backend, sub, c, d))
    cases = core.seeded_order(cases, ctx.seed)
    res = core.pmap(_shard, core.chunks(cases, max(4, len(cases) // (6 * core.NCPU))))
    n = 0
    fails = []
    for sh in res:
        for label, msg in sh:
            n += 1
            if msg:
                fails.append((len(label['items']), json.dumps(label, sort_keys=True), msg))
    fails.sort()
    seen = set()
    for _, lj, msg in fails:
        l = json.loads(lj)
        sig = (l['backend'], tuple(l['items'])[-1], msg[:40])
        if sig in seen:
            continue
        seen.add(sig)
        ctx.violation('C15:' + lj, 'install case %s: %s' % (lj, msg), case=l, observed=msg)
    if n < 300:
        raise core.HarnessError('vacuous C15 exploration')
    ctx.level = 'exploration'
    ctx.cov.update(
        evaluations=n, distinct_nontrivial=len(subsets),
        rule='all subsets of size <= %d of the %d installable kinds %r x directory configurations %r x DESTDIR modes '
             '(unset, configure-time plain / with a space, and for Make install-time and install-time overriding a '
             'configure-time value) x {make, ninja}; singles take the full product, larger subsets a covering selection '
             '(quick) / the full product for pairs (thorough). install with the real doppel, then uninstall. '
             'distinct = subsets' % (3 if th else 2, len(names), names, cfgs),
        samples=[dict(items=['versioned', 'exe-with-dep'], dirs='all', destdir='cfg-space')],
        exhaustive=True, cases=n, states=n, transitions=2 * n, traces_validated_against_impl=n)
    ctx.assumptions += ['stub toolchain: binaries are not ELF files, patchelf is a recording stub (the rpath request is '
                        'checked, not its effect)', 'an install-time DESTDIR for Ninja is not an obligation (no '
                        'command-line variable override exists)', 'file modes are not compared']


def replay(rec):
    l = rec['case']
    r = _shard([(l['backend'], tuple(l['items']), l['dirs'], l['destdir'])])
    print(r)
    return r[0][1] is None
