"""C10 — an interrupted or failed regeneration never leaves silently stale build files.

Shape D (crash-point / fault enumeration).  For each scenario (old project -> edit -> new
project) and backend the regeneration is first run uninterrupted in a forked child with the
file-system mutation calls wrapped (kernel/fsfault.py), which yields the list of mutation points;
then the run is repeated once per point and killed immediately before it (plus truncated / torn
states of every written file).  From every crashed state every sequence of <= L follow-up
attempts over {backend tool, regenerate --lazy, regenerate} is executed; either some attempt
fails visibly or the build file and every declared regeneration output equal those of an
uninterrupted run.  Script exceptions must leave the previous build file untouched.
"""
import itertools
import json
import os
import shutil

from kernel import core, bfg, proj, fsfault

OLD = {
    'build.bfg': "project('p', version='1.0')\n"
                 "srcs = find_files('src/*.c')\n"
                 "prog = executable('prog', srcs)\n"
                 "install(prog)\n"
                 "test(prog)\n"
                 "command('show', cmd=['rec', 'SHOW', argv.name])\n"
                 "pkg_config('p', version='1.0')\n"
                 # a fault in a follow-up attempt: the script raises (after the immediate files
                 # were rewritten) while a flag file exists; the flag is not a regeneration input
                 "import os as _os\n"
                 "if _os.path.exists(_os.path.join(env.srcdir.string(), 'FAIL.flag')):\n"
                 "    raise RuntimeError('injected script failure')\n",
    'options.bfg': "argument('name', default='old')\n",
    'src/a.c': 'int a;\n',
    'src/b.c': 'int b;\n',
    'extra.c': 'int e;\n',
}


def edit_add_file(src):
    with open(os.path.join(src, 'src', 'new.c'), 'w') as f:
        f.write('int n;\n')


def edit_build_bfg(src):
    with open(os.path.join(src, 'build.bfg'), 'a') as f:
        f.write("executable('extra', ['extra.c'])\n")


def edit_options(src):
    with open(os.path.join(src, 'options.bfg'), 'w') as f:
        f.write("argument('name', default='new')\n")


def edit_remove_file(src):
    os.remove(os.path.join(src, 'src', 'b.c'))


SCENARIOS = {
    'add-matching-file': edit_add_file,
    'edit-build.bfg': edit_build_bfg,
    'edit-options.bfg': edit_options,
    'remove-matching-file': edit_remove_file,
}
# `configure` run again over a configured and built directory with a different project option:
# no source edit, the interrupted run itself is what changes the project's configuration
RECONFIGURE = 'reconfigure-other-option'
ACTIONS = ['tool', 'lazy', 'full']
FAULTY = 'lazy-fails'      # a further attempt that itself fails (script raises), then is retried


def build_file(backend):
    return 'Makefile' if backend == 'make' else 'build.ninja'


def declared_outputs(bld, backend):
    out = {}
    for n in (build_file(backend), 'pkgconfig/p.pc', 'pkgconfig/p-uninstalled.pc'):
        p = os.path.join(bld, n)
        out[n] = open(p, 'rb').read() if os.path.exists(p) else None
    return out


def do_action(pr, action):
    if not os.path.isdir(pr.bld):
        # killed before the build directory existed: every tool fails visibly there
        return 1, 'no build directory'
    if action == FAULTY:
        flag = os.path.join(pr.src, 'FAIL.flag')
        open(flag, 'w').close()
        try:
            r = bfg.regenerate(pr.bld, pr.env, lazy=True, inproc=True)
        finally:
            os.remove(flag)
        return r.rc, r.err
    if action == 'tool':
        rc, out, recs = pr.run([])
        if rc == 0 and getattr(pr, 'bfglog', None) and not os.path.exists(pr.bfglog):
            # the backend saw nothing to regenerate: not a regeneration attempt at all
            return None, out
        return rc, out
    r = bfg.regenerate(pr.bld, pr.env, lazy=(action == 'lazy'), inproc=True)
    return r.rc, r.err


def _scenario_shard(arg):
    backend, scen, maxlen, initial = arg
    root = os.path.join(core.worker_dir(), 'c10')
    shutil.rmtree(root, ignore_errors=True)
    os.makedirs(root)
    wrapper = os.path.join(root, 'bfgwrap')
    bfglog = os.path.join(root, 'bfg.log')
    with open(wrapper, 'w') as f:
        f.write('#!/bin/sh\necho "$*" >> %s\nexec %s %s "$@"\n'
                % (bfglog, os.path.join(bfg.VENV_BIN, 'python'), bfg.BFG_CLI))
    os.chmod(wrapper, 0o755)
    pr = proj.Proj(os.path.join(root, 'p'), backend, OLD, OLD['build.bfg'], extra_env={'BFG9000': wrapper})
    pr.bfglog = bfglog
    viol = []
    stats = dict(points=0, hit=0, recoveries=0, outcomes={})

    def outcome(o):
        stats['outcomes'][o] = stats['outcomes'].get(o, 0) + 1
    if not initial:
        r = pr.configure()
        if r.rc != 0:
            raise core.HarnessError('configure failed: ' + r.err[-300:])
        rc, out, _ = pr.run([])
        if rc != 0:
            raise core.HarnessError('initial build failed: ' + out[-300:])
        proj.tick()
        if scen != RECONFIGURE:
            SCENARIOS[scen](pr.src)
        proj.tick()
    pre = os.path.join(root, 'pre')
    proj.snapshot(pr.root, pre)

    def operation():
        if initial or scen == RECONFIGURE:
            argv = ['configure-into', pr.src, pr.bld, '--backend=' + backend, '--no-resolve-packages'] + \
                (['--name=reconfigured', '--prefix=/other/prefix'] if scen == RECONFIGURE else [])
        else:
            argv = ['regenerate', '--lazy', pr.bld]
        return bfg.run_inproc(argv, pr.env, pr.src).rc
    # reference: the uninterrupted run (also yields the mutation points)
    points, rc0 = fsfault.run_counting(operation, pr.bld, root)
    if rc0 != 0:
        raise core.HarnessError('uninterrupted run failed rc=%s' % rc0)
    ref = declared_outputs(pr.bld, backend)
    if ref[build_file(backend)] is None:
        raise core.HarnessError('reference run wrote no build file')

    def saved_env():
        p = os.path.join(pr.bld, '.bfg_environ')
        return open(p, 'rb').read() if os.path.exists(p) else None
    env_new = saved_env()
    old = env_old = None
    if not initial:
        proj.restore(pre, pr.root)
        old = declared_outputs(pr.bld, backend)
        env_old = saved_env()
        if old == ref:
            raise core.HarnessError('scenario %s does not change the build files' % scen)
    if scen == RECONFIGURE and env_old == env_new:
        raise core.HarnessError('re-configuring does not change the saved configuration')

    touched = [True]

    def target():
        """what the declared outputs must be: the uninterrupted run's; except that a re-configure
        killed before it changed the saved configuration or a declared output has not changed the project
        (sources plus saved configuration) at all"""
        if scen != RECONFIGURE or touched[0]:
            return ref
        e = saved_env()
        return ref if e == env_new else old if e == env_old else None
    stats['points'] = len(points)
    seqs = [(a,) for a in ACTIONS] + [(FAULTY, a) for a in ACTIONS]
    if maxlen >= 2:
        seqs += list(itertools.product(ACTIONS, repeat=2))
        seqs += [(a, FAULTY, b) for a in ('lazy',) for b in ACTIONS]
    crashed = os.path.join(root, 'crashed')
    for k, (kind, path) in enumerate(points):
        proj.restore(pre, pr.root)
        st = fsfault.run_crashing(operation, pr.bld, k)
        if st != 137:
            raise core.HarnessError('crash point %d (%s %s) was not reached (status %s)'
                                    % (k, kind, path, st))
        stats['hit'] += 1
        # "changed anything": the saved configuration or a declared output (caches are not part of
        # the project's description)
        touched[0] = initial or saved_env() != env_old or declared_outputs(pr.bld, backend) != old
        proj.snapshot(pr.root, crashed)
        for seq in seqs:
            proj.restore(crashed, pr.root)
            stats['recoveries'] += 1
            rcs = []
            stale_after = None
            for i, a in enumerate(seq):
                if os.path.exists(bfglog):
                    os.remove(bfglog)
                rc, out = do_action(pr, a)
                if rc is None:
                    continue
                rcs.append(rc)
                if rc == 0 and a == FAULTY:
                    # the injected failure was not reached (regeneration legitimately skipped)
                    pass
                # an attempt that REPORTS SUCCESS must have brought the files up to date
                if rc == 0 and declared_outputs(pr.bld, backend) != target():
                    stale_after = i
                    break
            if stale_after is None and not rcs:
                outcome('no-regeneration-attempted')
                continue
            if stale_after is None and any(rcs):
                outcome('failed-visibly')
                continue
            now = declared_outputs(pr.bld, backend)
            if stale_after is None and now == target():
                # and a following build really uses the new project
                rc, out, _ = pr.run([])
                if rc != 0:
                    viol.append(('build-after-recovery-fails', backend, scen, kind, path, seq, out[-200:]))
                outcome('recovered')
                continue
            seq = seq[:stale_after + 1] if stale_after is not None else seq
            outcome('violation')
            tg = target()
            if tg is None:
                viol.append(('silently-stale', backend, scen, kind, path, seq,
                             'the saved configuration is neither the old nor the new one'))
                continue
            diff = [n for n in ref if now[n] != ref[n]]
            what = ['(expected: the %s configuration)' % ('new' if tg is ref else 'old')] if scen == RECONFIGURE else []
            for n in diff:
                if now[n] is None:
                    what.append('%s missing' % n)
                elif old and now[n] == old[n]:
                    what.append('%s still describes the old project' % n)
                elif ref[n] is not None and ref[n].startswith(now[n]):
                    what.append('%s truncated (%d of %d bytes)' % (n, len(now[n]), len(ref[n])))
                else:
                    what.append('%s differs' % n)
            viol.append(('silently-stale', backend, scen, kind, path, seq, '; '.join(what)))
    shutil.rmtree(root, ignore_errors=True)
    return viol, stats


RAISING = [
    ('script-raises-at-end', lambda s: s + "raise RuntimeError('boom')\n"),
    ('script-raises-after-find', lambda s: s.replace("prog = ", "raise RuntimeError('boom')\nprog = ")),
    ('script-raises-after-pkg_config', lambda s: s + "executable('late', ['extra.c'])\nraise ValueError('x')\n"),
    ('script-exits-nonzero', lambda s: s + "import sys\nsys.exit(3)\n"),
    ('script-syntax-error', lambda s: s + "def (:\n"),
    # the error happens while an immediate (.pc) file of the regeneration step is being written
    ('pkg_config-writer-raises', lambda s: s.replace("pkg_config('p', version='1.0')",
                                                     "pkg_config('p', version='2.0', lang='fortran')")),
    # Python's usual "print a message and exit with status 1"
    ('script-exits-with-message', lambda s: s + "import sys\nsys.exit('fatal: cannot configure this')\n"),
    ('script-exits-with-message-early', lambda s: s.replace("prog = ", "exit('fatal: early')\nprog = ")),
]


def _raise_shard(arg):
    backend, idx = arg
    name, mut = RAISING[idx]
    root = os.path.join(core.worker_dir(), 'c10r')
    shutil.rmtree(root, ignore_errors=True)
    pr = proj.Proj(os.path.join(root, 'p'), backend, OLD, OLD['build.bfg'])
    viol = []
    r = pr.configure()
    rc, out, _ = pr.run([])
    if r.rc or rc:
        raise core.HarnessError('setup failed')
    bf = os.path.join(pr.bld, build_file(backend))
    before = (open(bf, 'rb').read(), os.stat(bf).st_mtime_ns)
    with open(os.path.join(pr.src, 'build.bfg'), 'w') as f:
        f.write(mut(OLD['build.bfg']))
    n = 0
    for action in ('lazy', 'full', 'tool'):
        rc, out = do_action(pr, action)
        n += 1
        after = (open(bf, 'rb').read(), os.stat(bf).st_mtime_ns) if os.path.exists(bf) else None
        if rc == 0:
            viol.append(('raising-script-succeeds', backend, name, action, 'exit status 0'))
        if after != before:
            viol.append(('raising-script-touches-build-file', backend, name, action,
                         'build file %s' % ('removed' if after is None else
                                            'content changed' if after[0] != before[0] else 'mtime changed')))
            before = after
    shutil.rmtree(root, ignore_errors=True)
    return viol, n


def run(ctx):
    th = ctx.thorough
    backends = ['make', 'ninja'] if th else ['make', 'ninja']
    scens = list(SCENARIOS) if th else ['add-matching-file', 'edit-build.bfg']
    maxlen = 2 if th else 1
    shards = []
    for b in backends:
        for s in scens + [RECONFIGURE]:
            shards.append(('scen', (b, s, maxlen, False)))
        if th:
            shards.append(('scen', (b, 'initial-configure', maxlen, True)))
        for i in range(len(RAISING)):
            shards.append(('raise', (b, i)))
    res = core.pmap(_dispatch, core.seeded_order(shards, ctx.seed))
    allv = []
    tot = dict(points=0, hit=0, recoveries=0, outcomes={})
    nraise = 0
    for r in res:
        if isinstance(r[1], dict):
            allv += r[0]
            for k in ('points', 'hit', 'recoveries'):
                tot[k] += r[1][k]
            for k, v in r[1]['outcomes'].items():
                tot['outcomes'][k] = tot['outcomes'].get(k, 0) + v
        else:
            allv += r[0]
            nraise += r[1]
    # canonical key: backend, scenario, crash point (kind+file), shortest follow-up sequence
    allv.sort(key=lambda v: (v[0], v[1], v[2], len(v[5]) if len(v) > 5 and isinstance(v[5], tuple) else 0,
                             repr(v)))
    seen = set()
    for v in allv:
        if v[0] in ('silently-stale', 'build-after-recovery-fails'):
            law, backend, scen, kind, path, seq, what = v
            sig = (law, backend, scen, kind, path)
            if sig in seen:
                continue
            seen.add(sig)
            ctx.violation('C10:%s:%s:%s:crash-before-%s(%s):then=%s' % (law, backend, scen, kind, path,
                                                                        '+'.join(seq)),
                          '%s backend, %s: killed before %s of %s, then %s all exit 0 but %s'
                          % (backend, scen, kind, path, ' + '.join(seq), what),
                          case=dict(backend=backend, scenario=scen, point=[kind, path], followups=list(seq)),
                          observed=what)
        else:
            law, backend, name, action, what = v
            if (law, backend, name) in seen:
                continue
            seen.add((law, backend, name))
            ctx.violation('C10:%s:%s:%s:%s' % (law, backend, name, action),
                          '%s backend, %s via %s: %s' % (backend, name, action, what),
                          case=dict(backend=backend, script=name, action=action), observed=what)
    if tot['points'] != tot['hit'] or tot['points'] < 20 or len(tot['outcomes']) < 2:
        raise core.HarnessError('vacuous or incomplete C10 exploration: %r' % tot)
    ctx.level = 'fault_enumeration'
    ctx.cov.update(
        evaluations=tot['recoveries'] + nraise, distinct_nontrivial=tot['points'],
        rule='scenarios %r x backends %r: every file-system mutation point of the uninterrupted regeneration '
             '(before each truncating open, after it, half-written data, before each remove/utime/makedirs/rename) is a '
             'crash point (child killed with os._exit, no flush); from each crashed state every sequence of <= %d '
             'follow-ups over {backend tool, regenerate --lazy, regenerate}; oracle: some follow-up fails, or build file '
             'and declared regeneration outputs equal the uninterrupted run and a build succeeds. Plus %d raising / '
             'exiting / syntactically broken scripts x 3 ways of regenerating: non-zero exit, build file untouched. '
             'distinct = crash points' % (scens + (['initial-configure'] if th else []), backends, maxlen,
                                          len(RAISING)),
        samples=[dict(crash_point='before torn write of Makefile', followups=['tool'])],
        exhaustive=True, crash_points=tot['points'], crash_points_hit=tot['hit'],
        recoveries=tot['recoveries'], outcomes=tot['outcomes'], raising_script_runs=nraise,
        states=tot['points'], transitions=tot['recoveries'],
        traces_validated_against_impl=tot['recoveries'] + nraise)
    ctx.assumptions += [
        'crash model: process death between two file-system calls; buffered data not yet passed to the OS is lost; '
        'a written file is seen absent/old, truncated, half-written or complete',
        'the kernel does not reorder or lose completed writes (no power-failure model)']


def _dispatch(sh):
    k, a = sh
    return (_scenario_shard if k == 'scen' else _raise_shard)(a)


def replay(rec):
    print(json.dumps(rec, indent=1)[:2500])
    c = rec['case']
    if 'scenario' in c:
        v, st = _scenario_shard((c['backend'], c['scenario'], len(c['followups']),
                                 c['scenario'] == 'initial-configure'))
        hit = [x for x in v if x[0] == 'silently-stale' and [x[3], x[4]] == c['point'] and
               list(x[5]) == c['followups']]
        for x in hit:
            print(x)
        return not hit
    v, n = _raise_shard((c['backend'], [i for i, r in enumerate(RAISING) if r[0] == c['script']][0]))
    print(v)
    return not v
