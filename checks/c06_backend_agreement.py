"""C06 — Make, Ninja and compile_commands.json describe the same build.

Shape B, differential (no expected values).  Every program of the typed enumeration x a product
of configure options / environments is configured for both backends; both builds are run with the
recording stub toolchain.  Compared: (1) the sets of buildable targets (Make database vs the
manifest, helper nodes contracted), (2) per step: program, arguments, working directory,
environment, (3) the set of re-executed steps after modifying each source file, (4) every
compile_commands.json entry against the process the backend actually started for that output,
and that every compile/link/copy step has an entry.
"""
import itertools
import json
import os
import re
import shlex
import shutil
import subprocess

from kernel import core, bfg, proj
from gen import projgen

COLOR = ('-fdiagnostics-color', '-fcolor-diagnostics')
ALPHABET = projgen.FULL


def configs(thorough):
    out = []
    libmodes = [[], ['--enable-static'], ['--disable-shared', '--enable-static']]
    prefixes = [[], ['--prefix=/opt/p x']]
    gopts = [False, True]
    envs = [False, True]
    for lm, pf, go, ev in itertools.product(libmodes, prefixes, gopts, envs):
        simple = (lm, pf, go, ev) in [([], [], False, False),
                                      (['--enable-static'], ['--prefix=/opt/p x'], True, True)]
        if thorough or simple:
            out.append(dict(args=lm + pf, gopts=go, env=ev))
    return out


GOPTS = ("global_options(['-DGO=1', opts.define('GD', 'a b')], lang='c')\n"
         "global_link_options(['-Wl,-go'])\n")
ENVFLAGS = {'CFLAGS': '-DEF=1 "-DEQ=x y"', 'CPPFLAGS': '-DPP', 'LDFLAGS': '-Wl,-ef', 'LDLIBS': '-lm'}


def norm_arg(a):
    if a.startswith('-') or a == '--':
        return a
    return os.path.normpath(a) if '/' in a or a.startswith('.') else a


def norm_argv(argv):
    return [norm_arg(a) for a in argv if a not in COLOR]


def make_targets(pr):
    p = subprocess.run(['make', '-pRrq'], cwd=pr.bld, env=pr.env, stdout=subprocess.PIPE,
                       stderr=subprocess.DEVNULL, text=True, errors='replace')
    out = set()
    lines = p.stdout.split('\n')
    try:
        start = lines.index('# Files')
    except ValueError:
        return None
    notarget = False
    for l in lines[start + 1:]:
        if l.startswith('# Not a target'):
            notarget = True
            continue
        if l.startswith('# files hash-table stats') or l.startswith('# VPATH'):
            break
        m = re.match(r'^([^#\t\s][^:=]*):(?!=)', l)
        if m:
            if not notarget:
                for t in m.group(1).split():
                    out.add(t)
            notarget = False
    drop = set()
    for t in out:
        if t.endswith('.stamp') or t.endswith('/.dir') or t in ('Makefile', '.PHONY', '.SUFFIXES', '.DEFAULT',
                                                                  '.dir') or t.startswith('.bfg_'):
            drop.add(t)
    return {os.path.normpath(t) for t in out - drop}


def ninja_targets(pr):
    p = subprocess.run([bfg.REFNINJA, '-t', 'refdump'], cwd=pr.bld, env=pr.env, stdout=subprocess.PIPE,
                       text=True)
    d = json.loads(p.stdout)
    out = set()
    for e in d['edges']:
        for o in e['outputs'] + e['implicit_outputs']:
            out.add(os.path.normpath(o))
    return out - {'PHONY', 'build.ninja'}


def step_table(pr, recs):
    """key (sorted relative outputs, or tool+argv for output-less processes) -> description"""
    tab = {}
    for s in proj.steps_of(recs):
        if isinstance(s['key'], frozenset):
            k = tuple(sorted(os.path.relpath(o, pr.bld) for o in s['key']))
        else:
            k = ('proc', s['tool']) + tuple(norm_argv(s['argv'][1:]))
        tab[k] = s
    return tab


def describe(pr, s, rec):
    cwd = os.path.relpath(rec['cwd'], pr.bld)
    return (s['tool'], tuple(norm_argv(s['argv'])), cwd, tuple(sorted(rec['env'].items())))


def check_program(p, cfg, root):
    viol = []
    script = (GOPTS if cfg['gopts'] else '') + p.script()
    extra_env = dict(ENVFLAGS) if cfg['env'] else {}
    prs = {}
    built = {}
    n = 0
    for backend in ('make', 'ninja'):
        pr = proj.Proj(os.path.join(root, backend), backend, p.files, script, extra_env=extra_env,
                       args=cfg['args'])
        # both projects must see the same source path: share one tree
        if backend == 'ninja':
            shutil.rmtree(pr.src)
            os.symlink(prs['make'].src, pr.src)
            pr.src = prs['make'].src
        r = pr.configure()
        n += 1
        prs[backend] = pr
        if r.rc != 0:
            built[backend] = ('configure-fails', r.err.strip().splitlines()[-1][:200] if r.err.strip() else '')
    if len(built) == 2:
        return viol, n          # rejected by both: nothing to compare
    if built:
        b, (law, msg) = list(built.items())[0]
        viol.append(('one-backend-rejects', 'only %s fails to configure: %s' % (b, msg)))
        return viol, n
    mk, nj = prs['make'], prs['ninja']
    # (1) targets
    mt, nt = make_targets(mk), ninja_targets(nj)
    if mt is None:
        raise core.HarnessError('could not read the Make database')
    if mt != nt:
        viol.append(('targets', 'only in Makefile: %r; only in build.ninja: %r'
                     % (sorted(mt - nt), sorted(nt - mt))))
    cfgsnaps = {b: os.path.join(root, 'snap-cfg-' + b) for b in prs}
    fullsnaps = {b: os.path.join(root, 'snap-full-' + b) for b in prs}
    for b in prs:
        proj.snapshot(prs[b].bld, cfgsnaps[b])
    # (2) steps of a full build
    goals = ['all'] + sorted(p.aliases) + ['tests'] * bool(p.tests or p.test_args)
    logs = {}
    for backend, pr in prs.items():
        rc, out, recs = pr.run(goals)
        n += 1
        if rc != 0:
            viol.append(('build-fails', '%s: %s' % (backend, out[-200:])))
            return viol, n
        logs[backend] = recs
    tabs = {b: step_table(prs[b], logs[b]) for b in prs}
    recmap = {}
    for b in prs:
        recmap[b] = {}
        for rec, s in zip(logs[b], proj.steps_of(logs[b])):
            k = tuple(sorted(os.path.relpath(o, prs[b].bld) for o in s['key'])) \
                if isinstance(s['key'], frozenset) else ('proc', s['tool']) + tuple(norm_argv(s['argv'][1:]))
            recmap[b][k] = describe(prs[b], s, rec)
    if set(recmap['make']) != set(recmap['ninja']):
        viol.append(('steps', 'steps only run by make: %r; only by ninja: %r'
                     % (sorted(map(str, set(recmap['make']) - set(recmap['ninja']))),
                        sorted(map(str, set(recmap['ninja']) - set(recmap['make']))))))
    for k in sorted(set(recmap['make']) & set(recmap['ninja']), key=str):
        if recmap['make'][k] != recmap['ninja'][k]:
            viol.append(('step-differs', 'step %r: make runs %r, ninja runs %r'
                         % (k, recmap['make'][k], recmap['ninja'][k])))
    # (2b) an immediately repeated build runs the same steps under both tools
    again = {}
    for backend, pr in prs.items():
        rc, out, recs = pr.run(goals)
        n += 1
        again[backend] = set(step_table(pr, recs)) if rc == 0 else 'FAILED'
    if again['make'] != again['ninja']:
        viol.append(('repeated-build', 'a second build re-ran %r under make, %r under ninja'
                     % (sorted(map(str, again['make'])) if isinstance(again['make'], set) else again['make'],
                        sorted(map(str, again['ninja'])) if isinstance(again['ninja'], set) else again['ninja'])))
    for b in prs:
        proj.snapshot(prs[b].bld, fullsnaps[b])
    # (2c) a step's command does not depend on the goal it was reached through: every product
    # that consumes another step's product is built alone from the configured (unbuilt) tree
    produced = {}
    for k, st in tabs['make'].items():
        if k[0] != 'proc':
            for o in st['outputs']:
                produced[o] = k
    single = sorted(k for k, st in tabs['make'].items()
                    if k[0] != 'proc' and any(i in produced and produced[i] != k for i in st['inputs']))
    for k in single:
        got = {}
        for b, pr in prs.items():
            proj.restore(cfgsnaps[b], pr.bld)
            rc, out, recs = pr.run([k[0]])
            n += 1
            if rc != 0:
                got[b] = 'FAILED: ' + out[-150:]
                continue
            got[b] = {}
            for rec, st in zip(recs, proj.steps_of(recs)):
                kk = tuple(sorted(os.path.relpath(o, pr.bld) for o in st['key'])) \
                    if isinstance(st['key'], frozenset) else ('proc', st['tool']) + tuple(norm_argv(st['argv'][1:]))
                got[b][kk] = describe(pr, st, rec)
        for b in prs:
            if isinstance(got[b], str):
                viol.append(('single-goal-fails', '%s: building only %r from a configured tree: %s' % (b, k[0], got[b])))
                continue
            for kk, d in sorted(got[b].items(), key=str):
                if kk in recmap[b] and recmap[b][kk] != d:
                    viol.append(('goal-dependent-command',
                                 '%s: step %r runs %r when %r is the goal, but %r in a full build'
                                 % (b, kk, d[1], k[0], recmap[b][kk][1])))
        if all(isinstance(got[b], dict) for b in prs) and set(got['make']) != set(got['ninja']):
            viol.append(('single-goal-steps', 'goal %r: make ran %r, ninja ran %r'
                         % (k[0], sorted(map(str, got['make'])), sorted(map(str, got['ninja'])))))
    for b, pr in prs.items():
        proj.restore(fullsnaps[b], pr.bld)
    # (3) rebuild sets after modifying each source
    snaps = {b: os.path.join(root, 'snap-' + b) for b in prs}
    for b in prs:
        proj.snapshot(prs[b].bld, snaps[b])
    srcsnap = os.path.join(root, 'snap-src')
    proj.snapshot(mk.src, srcsnap)
    for f in sorted(p.files):
        ran = {}
        for b in prs:
            proj.restore(snaps[b], prs[b].bld)
        proj.restore(srcsnap, mk.src)
        proj.modify(os.path.join(mk.src, f))
        for b in prs:
            rc, out, recs = prs[b].run(goals)
            n += 1
            ran[b] = set(step_table(prs[b], recs)) if rc == 0 else 'FAILED'
        if ran['make'] != ran['ninja']:
            # link copies may legitimately be skipped by one tool (content cannot be stale)
            sym = ran['make'] ^ ran['ninja'] if isinstance(ran['make'], set) and isinstance(ran['ninja'], set) \
                else None
            if sym is not None and all(tabs['make'].get(k, tabs['ninja'].get(k, {})).get('tool') == 'lnstub'
                                       for k in sym):
                continue
            viol.append(('rebuild-sets', 'after modifying %s make re-ran %r, ninja re-ran %r'
                         % (f, sorted(map(str, ran['make'])) if isinstance(ran['make'], set) else ran['make'],
                            sorted(map(str, ran['ninja'])) if isinstance(ran['ninja'], set) else ran['ninja'])))
    # (4) compile_commands.json
    for b in prs:
        proj.restore(snaps[b], prs[b].bld)
    for b, pr in prs.items():
        try:
            db = json.load(open(os.path.join(pr.bld, 'compile_commands.json')))
        except OSError:
            viol.append(('compdb-missing', b))
            continue
        seen_out = set()
        for e in db:
            out = e.get('output')
            if out is None:
                continue
            d = e['directory']
            k = tuple(sorted([os.path.relpath(os.path.normpath(os.path.join(d, out)), pr.bld)]))
            cand = [kk for kk in tabs[b] if isinstance(kk[0], str) and kk[0] != 'proc' and k[0] in kk]
            if not cand:
                if k[0] in {os.path.normpath(v.path) for v in p.values} or True:
                    # step not part of the goals we ran (e.g. an object nobody links): skip
                    continue
            s = tabs[b][cand[0]]
            seen_out.add(cand[0])
            args = e['arguments'] if 'arguments' in e else shlex.split(e['command'])
            want = [norm_arg(a) for a in norm_argv(s['argv'])]
            got = [norm_arg(a) for a in norm_argv(args)]
            # commands of custom steps may carry an env prefix / several commands: compare the
            # words of the process we logged as a contiguous slice
            ok = got == want or (('command' in e or len(got) > len(want)) and
                                 any(got[i:i + len(want)] == want for i in range(len(got))))
            if not ok:
                viol.append(('compdb-arguments', '%s: output %s: compile_commands.json says %r, the %s build ran %r'
                             % (b, out, got, b, want)))
            if os.path.normpath(d) != os.path.normpath(os.path.join(pr.bld, os.path.relpath(
                    logs_cwd(logs[b], s), pr.bld))):
                viol.append(('compdb-directory', '%s: output %s: directory %r, process ran in %r'
                             % (b, out, d, logs_cwd(logs[b], s))))
        for k, s in tabs[b].items():
            if s['tool'] in ('cc', 'ar', 'cpstub', 'lnstub') and k not in seen_out:
                viol.append(('compdb-entry-missing', '%s: no compile_commands.json entry for the step producing %r'
                             % (b, k)))
    return viol, n


# --- JVM programs: compile steps whose libraries are needed at compile time (rule.libs, -cp) ---------------------
# The stub toolchain knows C-family command lines only, so these programs are built with the real javac/jar of the
# image.  Oracles: (5) per product, the real (normal / implicit) and the order-only prerequisites of the Makefile
# and of build.ninja are the same sets; (6) after modifying each source, make and ninja re-make the same products
# (observed through the products' timestamps).

JVM_FILES = {
    'A.java': 'public class A { public static final int V = 1; }\n',
    'B.java': 'public class B { public static int v() { return 2; } }\n',
    'Main.java': 'public class Main { public static void main(String[] a) { System.out.println("m"); } }\n',
}


def jvm_programs():
    out = []
    for two in (False, True):
        chains = ([], ['a']) if two else ([],)
        for chain in chains:
            subsets = (['a'], ['b'], ['a', 'b'], ['b', 'a']) if two else (['a'],)
            for use in subsets:
                for consumer in ('executable', 'library', 'object_file'):
                    lines = ["project('j')", "a = library('a', files=['A.java'])"]
                    if two:
                        lines.append("b = library('b', files=['B.java']%s)"
                                     % (', libs=[a]' if chain else ''))
                    libs = '[%s]' % ', '.join(use)
                    if consumer == 'executable':
                        lines.append("c = executable('prog', files=['Main.java'], libs=%s, entry_point='Main')" % libs)
                    elif consumer == 'library':
                        lines.append("c = library('top', files=['Main.java'], libs=%s)" % libs)
                    else:
                        lines.append("c = object_file(file='Main.java', libs=%s)\ndefault(c)" % libs)
                    files = {k: v for k, v in JVM_FILES.items() if two or k != 'B.java'}
                    out.append(('\n'.join(lines) + '\n', files))
    # a pre-built jar of the source tree (a library without a build step) on the classpath
    for use in (['dep'], ['a', 'dep'], ['dep', 'a']):
        for link in (False, True):
            lines = ["project('j')", "a = library('a', files=['A.java'])",
                     "dep = library('vendor/dep.jar', format='jvm', lang='java')",
                     "c = object_file(file='Main.java', libs=[%s])" % ', '.join(use),
                     "default(executable('prog', files=[c], entry_point='Main'))" if link else 'default(c)']
            files = {k: v for k, v in JVM_FILES.items() if k != 'B.java'}
            files['vendor/dep.jar'] = None
            out.append(('\n'.join(lines) + '\n', files))
    return out


def _write_jar(path):
    import zipfile
    os.makedirs(os.path.dirname(path), exist_ok=True)
    with zipfile.ZipFile(path, 'w') as z:
        z.writestr(zipfile.ZipInfo('META-INF/MANIFEST.MF', (2020, 1, 1, 0, 0, 0)), 'Manifest-Version: 1.0\r\n\r\n')


def _jvm_modify(path):
    if path.endswith('.jar'):
        proj.tick()
        os.utime(path)
        proj.tick()
    else:
        proj.modify(path)


def make_edges(pr):
    p = subprocess.run(['make', '-pRrq'], cwd=pr.bld, env=pr.env, stdout=subprocess.PIPE,
                       stderr=subprocess.DEVNULL, text=True, errors='replace')
    lines = p.stdout.split('\n')
    if '# Files' not in lines:
        return None
    out = {}
    notarget = False
    for l in lines[lines.index('# Files') + 1:]:
        if l.startswith('# Not a target'):
            notarget = True
            continue
        if l.startswith('# files hash-table stats') or l.startswith('# VPATH'):
            break
        m = re.match(r'^([^#\t\s][^:=]*):(?!=)(.*)$', l)
        if m:
            if not notarget and ':=' not in l:
                normal, _, order = m.group(2).partition('|')
                for t in m.group(1).split():
                    e = out.setdefault(os.path.normpath(t), (set(), set()))
                    e[0].update(os.path.normpath(x) for x in normal.split())
                    e[1].update(os.path.normpath(x) for x in order.split())
            notarget = False
    return out


def ninja_edges(pr):
    p = subprocess.run([bfg.REFNINJA, '-t', 'refdump'], cwd=pr.bld, env=pr.env, stdout=subprocess.PIPE,
                       text=True)
    out = {}
    for e in json.loads(p.stdout)['edges']:
        if e['rule'] in ('phony', 'regenerate') or e['generator']:
            continue
        for o in e['outputs'] + e['implicit_outputs']:
            out[os.path.normpath(o)] = ({os.path.normpath(x) for x in e['inputs'] + e['implicit']},
                                        {os.path.normpath(x) for x in e['order_only']})
    return out


def _mtimes(bld, names):
    out = {}
    for n in names:
        try:
            out[n] = os.stat(os.path.join(bld, n)).st_mtime_ns
        except OSError:
            out[n] = None
    return out


def check_jvm(script, files, root, behavioural):
    viol = []
    n = 0
    prs = {}
    for backend in ('make', 'ninja'):
        pr = proj.Proj(os.path.join(root, backend), backend, {k: v for k, v in files.items() if v is not None},
                       script)
        for k, v in files.items():
            if v is None:
                _write_jar(os.path.join(pr.src, k))
        if backend == 'ninja':
            shutil.rmtree(pr.src)
            os.symlink(prs['make'].src, pr.src)
            pr.src = prs['make'].src
        r = pr.configure()
        n += 1
        if r.rc != 0:
            raise core.HarnessError('JVM program does not configure for %s: %s' % (backend, r.err[-300:]))
        prs[backend] = pr
    mk, nj = prs['make'], prs['ninja']
    me, ne = make_edges(mk), ninja_edges(nj)
    if me is None:
        raise core.HarnessError('could not read the Make database')
    products = sorted(o for o in ne if not o.startswith('dist') and o not in ('clean', 'PHONY'))
    if not products or not any(o.endswith('.classlist') for o in products):
        raise core.HarnessError('JVM program has no compile step')

    def strip(s):
        # helper nodes of the Make backend: directory stamps and the regeneration stamp
        return {x for x in s if not x.endswith('/.dir') and x != '.dir' and x != 'Makefile.stamp'}
    for o in products:
        if o not in me:
            viol.append(('jvm-targets', 'build.ninja makes %r, the Makefile has no such target' % o))
            continue
        mreal, morder = strip(me[o][0]), strip(me[o][1])
        nreal, norder = ne[o]
        if mreal != nreal:
            viol.append(('jvm-prerequisites', 'product %r: real prerequisites %r in the Makefile, %r in build.ninja'
                         % (o, sorted(mreal), sorted(nreal))))
        if morder != norder:
            viol.append(('jvm-order-only', 'product %r: order-only prerequisites %r in the Makefile, %r in '
                         'build.ninja' % (o, sorted(morder), sorted(norder))))
    if not behavioural:
        return viol, n
    for b, pr in prs.items():
        rc, out, _ = pr.run(['all'])
        n += 1
        if rc != 0:
            raise core.HarnessError('JVM build fails under %s: %s' % (b, out[-300:]))
    snaps = {b: os.path.join(root, 'snap-' + b) for b in prs}
    for b in prs:
        proj.snapshot(prs[b].bld, snaps[b])
    srcsnap = os.path.join(root, 'snap-src')
    proj.snapshot(mk.src, srcsnap)
    for f in sorted(files):
        remade = {}
        proj.restore(srcsnap, mk.src)
        for b in prs:
            proj.restore(snaps[b], prs[b].bld)
        before = {b: _mtimes(prs[b].bld, products) for b in prs}
        _jvm_modify(os.path.join(mk.src, f))
        for b, pr in prs.items():
            rc, out, _ = pr.run(['all'])
            n += 1
            after = _mtimes(pr.bld, products)
            remade[b] = 'FAILED' if rc != 0 else {o for o in products if after[o] != before[b][o]}
        if remade['make'] != remade['ninja']:
            viol.append(('jvm-rebuild-sets', 'after modifying %s make re-made %r, ninja re-made %r'
                         % (f, sorted(remade['make']) if isinstance(remade['make'], set) else remade['make'],
                            sorted(remade['ninja']) if isinstance(remade['ninja'], set) else remade['ninja'])))
    return viol, n


def _jvm_shard(arg):
    i, behavioural = arg
    script, files = jvm_programs()[i]
    root = os.path.join(core.worker_dir(), 'c06j')
    shutil.rmtree(root, ignore_errors=True)
    try:
        return i, check_jvm(script, files, root, behavioural)
    finally:
        shutil.rmtree(root, ignore_errors=True)


def logs_cwd(recs, s):
    for r in recs:
        if r['argv'] == s['argv']:
            return r['cwd']
    return '?'


def _shard(arg):
    k, idxs, cfgs = arg
    progs = projgen.programs(k, ALPHABET)
    root = os.path.join(core.worker_dir(), 'c06')
    res = []
    for i in idxs:
        for ci, cfg in enumerate(cfgs):
            shutil.rmtree(root, ignore_errors=True)
            v, n = check_program(progs[i], cfg, root)
            res.append((i, ci, v, n))
    shutil.rmtree(root, ignore_errors=True)
    return res


def run(ctx):
    k = 2
    progs = projgen.programs(k, ALPHABET)
    cfgs = configs(ctx.thorough)
    idxs = core.seeded_order(range(len(progs)), ctx.seed)
    shards = [(k, ch, cfgs) for ch in core.chunks(idxs, max(1, len(idxs) // (8 * core.NCPU)))]
    res = core.pmap(_shard, shards)
    allv = []
    n = 0
    for sh in res:
        for i, ci, v, nb in sh:
            n += nb
            for law, detail in v:
                allv.append((law, progs[i].nsteps, i, ci, detail))
    allv.sort()
    seen = set()
    for law, _, i, ci, detail in allv:
        sig = (law, tuple(progs[i].kinds)[-1].split('+')[0])
        if sig in seen:
            continue
        seen.add(sig)
        ctx.violation('C06:%s:%s:cfg=%s' % (law, ' | '.join(progs[i].lines), json.dumps(cfgs[ci])),
                      'program [%s], configuration %r: %s: %s' % (' | '.join(progs[i].lines), cfgs[ci], law, detail),
                      case=dict(k=k, index=i, config=cfgs[ci], script=progs[i].script()), observed=detail)
    # JVM programs (compile-time libraries)
    jprogs = jvm_programs()
    jbeh = set(range(len(jprogs))) if ctx.thorough else {0, 25, len(jprogs) - 1}
    jn = 0
    jseen = set()
    for i, (v, nb) in core.pmap(_jvm_shard, [(i, i in jbeh) for i in range(len(jprogs))]):
        jn += nb
        for law, detail in v:
            if law in jseen:
                continue
            jseen.add(law)
            ctx.violation('C06:%s:%s' % (law, ' | '.join(jprogs[i][0].split('\n')[1:-1])),
                          'JVM program [%s]: %s: %s' % (' | '.join(jprogs[i][0].split('\n')[1:-1]), law, detail),
                          case=dict(jvm=i, script=jprogs[i][0]), observed=detail)
    n += jn
    if n < 500:
        raise core.HarnessError('vacuous C06 exploration')
    ctx.level = 'exploration'
    ctx.cov.update(
        evaluations=n, distinct_nontrivial=len(progs) * len(cfgs),
        rule='all %d programs with <= %d steps (same step alphabet as C03) x %d configurations (library mode x prefix '
             'with a space x global options x CFLAGS/CPPFLAGS/LDFLAGS/LDLIBS), both backends from one script: target '
             'sets (make -p database vs manifest), per-step program/arguments/cwd/environment, re-executed steps '
             'after modifying each source, compile_commands.json entries vs the processes actually started. '
             'distinct = (program, configuration) pairs. Plus %d JVM programs (1-2 library jars, optionally chained, or a '
             'pre-built jar of the source tree, '
             'consumed by an executable / library / object_file through libs= in every order) built with the real '
             'javac and jar: per product the real and the order-only prerequisites of Makefile and build.ninja are '
             'the same sets, and (%d of them here, all in the thorough tier) the products re-made after modifying '
             'each source are the same under make and ninja; %d configure/build runs'
             % (len(progs), k, len(cfgs), len(jprogs), len(jbeh), jn),
        samples=[dict(script=progs[len(progs) // 2].script(), config=cfgs[-1])],
        exhaustive=True, programs=len(progs), configurations=len(cfgs), configure_and_build_runs=n,
        states=len(progs) * len(cfgs), transitions=n, traces_validated_against_impl=n)
    ctx.assumptions += ['refninja is the meaning of the Ninja manifest; documented Ninja-only colour flag removed '
                        'before comparing', 'steps outside the goals run (objects nobody links) are not compared '
                        'against compile_commands.json']


def replay(rec):
    c = rec['case']
    if 'jvm' in c:
        script, files = jvm_programs()[c['jvm']]
        v, n = check_jvm(script, files, os.path.join(core.worker_dir(), 'c06jr'), True)
        for x in v:
            print(x)
        return not v
    progs = projgen.programs(c['k'], ALPHABET)
    v, n = check_program(progs[c['index']], c['config'], os.path.join(core.worker_dir(), 'c06r'))
    for x in v:
        print(x)
    return not v
