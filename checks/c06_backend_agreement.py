"""C06 — Make, Ninja and compile_commands.json describe the same build.

Shape B, differential (no expected values).  Every program of the typed enumeration x a product
of configure options / environments is configured for both backends; both builds are run with the
recording stub toolchain.  Compared: (1) the sets of buildable targets (Make database vs the
manifest, helper nodes contracted), (2) per step: program, arguments, working directory,
environment, (3) the set of re-executed steps after modifying each source file, (4) every
compile_commands.json entry against the process the backend actually started for that output,
and that every compile/link/copy step has an entry.
"""
import itertools
import json
import os
import re
import shlex
import shutil
import subprocess

from kernel import core, bfg, proj
from gen import projgen

COLOR = ('-fdiagnostics-color', '-fcolor-diagnostics')
ALPHABET = projgen.FULL


def configs(thorough):
    out = []
    libmodes = [[], ['--enable-static'], ['--disable-shared', '--enable-static']]
    prefixes = [[], ['--prefix=/opt/p x']]
    gopts = [False, True]
    envs = [False, True]
    for lm, pf, go, ev in itertools.product(libmodes, prefixes, gopts, envs):
        simple = (lm, pf, go, ev) in [([], [], False, False),
                                      (['--enable-static'], ['--prefix=/opt/p x'], True, True)]
        if thorough or simple:
            out.append(dict(args=lm + pf, gopts=go, env=ev))
    return out


GOPTS = ("global_options(['-DGO=1', opts.define('GD', 'a b')], lang='c')\n"
         "global_link_options(['-Wl,-go'])\n")
ENVFLAGS = {'CFLAGS': '-DEF=1 "-DEQ=x y"', 'CPPFLAGS': '-DPP', 'LDFLAGS': '-Wl,-ef', 'LDLIBS': '-lm'}


def norm_arg(a):
    if a.startswith('-') or a == '--':
        return a
    return os.path.normpath(a) if '/' in a or a.startswith('.') else a


def norm_argv(argv):
    return [norm_arg(a) for a in argv if a not in COLOR]


def make_targets(pr):
    p = subprocess.run(['make', '-pRrq'], cwd=pr.bld, env=pr.env, stdout=subprocess.PIPE,
                       stderr=subprocess.DEVNULL, text=True, errors='replace')
    out = set()
    lines = p.stdout.split('\n')
    try:
        start = lines.index('# Files')
    except ValueError:
        return None
    notarget = False
    for l in lines[start + 1:]:
        if l.startswith('# Not a target'):
            notarget = True
            continue
        if l.startswith('# files hash-table stats') or l.startswith('# VPATH'):
            break
        m = re.match(r'^([^#\t\s][^:=]*):(?!=)', l)
        if m:
            if not notarget:
                for t in m.group(1).split():
                    out.add(t)
            notarget = False
    drop = set()
    for t in out:
        if t.endswith('.stamp') or t.endswith('/.dir') or t in ('Makefile', '.PHONY', '.SUFFIXES', '.DEFAULT',
                                                                  '.dir') or t.startswith('.bfg_'):
            drop.add(t)
    return {os.path.normpath(t) for t in out - drop}


def ninja_targets(pr):
    p = subprocess.run([bfg.REFNINJA, '-t', 'refdump'], cwd=pr.bld, env=pr.env, stdout=subprocess.PIPE,
                       text=True)
    d = json.loads(p.stdout)
    out = set()
    for e in d['edges']:
        for o in e['outputs'] + e['implicit_outputs']:
            out.add(os.path.normpath(o))
    return out - {'PHONY', 'build.ninja'}


def step_table(pr, recs):
    """key (sorted relative outputs, or tool+argv for output-less processes) -> description"""
    tab = {}
    for s in proj.steps_of(recs):
        if isinstance(s['key'], frozenset):
            k = tuple(sorted(os.path.relpath(o, pr.bld) for o in s['key']))
        else:
            k = ('proc', s['tool']) + tuple(norm_argv(s['argv'][1:]))
        tab[k] = s
    return tab


def describe(pr, s, rec):
    cwd = os.path.relpath(rec['cwd'], pr.bld)
    return (s['tool'], tuple(norm_argv(s['argv'])), cwd, tuple(sorted(rec['env'].items())))


def check_program(p, cfg, root):
    viol = []
    script = (GOPTS if cfg['gopts'] else '') + p.script()
    extra_env = dict(ENVFLAGS) if cfg['env'] else {}
    prs = {}
    built = {}
    n = 0
    for backend in ('make', 'ninja'):
        pr = proj.Proj(os.path.join(root, backend), backend, p.files, script, extra_env=extra_env,
                       args=cfg['args'])
        # both projects must see the same source path: share one tree
        if backend == 'ninja':
            shutil.rmtree(pr.src)
            os.symlink(prs['make'].src, pr.src)
            pr.src = prs['make'].src
        r = pr.configure()
        n += 1
        prs[backend] = pr
        if r.rc != 0:
            built[backend] = ('configure-fails', r.err.strip().splitlines()[-1][:200] if r.err.strip() else '')
    if len(built) == 2:
        return viol, n          # rejected by both: nothing to compare
    if built:
        b, (law, msg) = list(built.items())[0]
        viol.append(('one-backend-rejects', 'only %s fails to configure: %s' % (b, msg)))
        return viol, n
    mk, nj = prs['make'], prs['ninja']
    # (1) targets
    mt, nt = make_targets(mk), ninja_targets(nj)
    if mt is None:
        raise core.HarnessError('could not read the Make database')
    if mt != nt:
        viol.append(('targets', 'only in Makefile: %r; only in build.ninja: %r'
                     % (sorted(mt - nt), sorted(nt - mt))))
    cfgsnaps = {b: os.path.join(root, 'snap-cfg-' + b) for b in prs}
    fullsnaps = {b: os.path.join(root, 'snap-full-' + b) for b in prs}
    for b in prs:
        proj.snapshot(prs[b].bld, cfgsnaps[b])
    # (2) steps of a full build
    goals = ['all'] + sorted(p.aliases) + ['tests'] * bool(p.tests or p.test_args)
    logs = {}
    for backend, pr in prs.items():
        rc, out, recs = pr.run(goals)
        n += 1
        if rc != 0:
            viol.append(('build-fails', '%s: %s' % (backend, out[-200:])))
            return viol, n
        logs[backend] = recs
    tabs = {b: step_table(prs[b], logs[b]) for b in prs}
    recmap = {}
    for b in prs:
        recmap[b] = {}
        for rec, s in zip(logs[b], proj.steps_of(logs[b])):
            k = tuple(sorted(os.path.relpath(o, prs[b].bld) for o in s['key'])) \
                if isinstance(s['key'], frozenset) else ('proc', s['tool']) + tuple(norm_argv(s['argv'][1:]))
            recmap[b][k] = describe(prs[b], s, rec)
    if set(recmap['make']) != set(recmap['ninja']):
        viol.append(('steps', 'steps only run by make: %r; only by ninja: %r'
                     % (sorted(map(str, set(recmap['make']) - set(recmap['ninja']))),
                        sorted(map(str, set(recmap['ninja']) - set(recmap['make']))))))
    for k in sorted(set(recmap['make']) & set(recmap['ninja']), key=str):
        if recmap['make'][k] != recmap['ninja'][k]:
            viol.append(('step-differs', 'step %r: make runs %r, ninja runs %r'
                         % (k, recmap['make'][k], recmap['ninja'][k])))
    # (2b) an immediately repeated build runs the same steps under both tools
    again = {}
    for backend, pr in prs.items():
        rc, out, recs = pr.run(goals)
        n += 1
        again[backend] = set(step_table(pr, recs)) if rc == 0 else 'FAILED'
    if again['make'] != again['ninja']:
        viol.append(('repeated-build', 'a second build re-ran %r under make, %r under ninja'
                     % (sorted(map(str, again['make'])) if isinstance(again['make'], set) else again['make'],
                        sorted(map(str, again['ninja'])) if isinstance(again['ninja'], set) else again['ninja'])))
    for b in prs:
        proj.snapshot(prs[b].bld, fullsnaps[b])
    # (2c) a step's command does not depend on the goal it was reached through: every product
    # that consumes another step's product is built alone from the configured (unbuilt) tree
    produced = {}
    for k, st in tabs['make'].items():
        if k[0] != 'proc':
            for o in st['outputs']:
                produced[o] = k
    single = sorted(k for k, st in tabs['make'].items()
                    if k[0] != 'proc' and any(i in produced and produced[i] != k for i in st['inputs']))
    for k in single:
        got = {}
        for b, pr in prs.items():
            proj.restore(cfgsnaps[b], pr.bld)
            rc, out, recs = pr.run([k[0]])
            n += 1
            if rc != 0:
                got[b] = 'FAILED: ' + out[-150:]
                continue
            got[b] = {}
            for rec, st in zip(recs, proj.steps_of(recs)):
                kk = tuple(sorted(os.path.relpath(o, pr.bld) for o in st['key'])) \
                    if isinstance(st['key'], frozenset) else ('proc', st['tool']) + tuple(norm_argv(st['argv'][1:]))
                got[b][kk] = describe(pr, st, rec)
        for b in prs:
            if isinstance(got[b], str):
                viol.append(('single-goal-fails', '%s: building only %r from a configured tree: %s' % (b, k[0], got[b])))
                continue
            for kk, d in sorted(got[b].items(), key=str):
                if kk in recmap[b] and recmap[b][kk] != d:
                    viol.append(('goal-dependent-command',
                                 '%s: step %r runs %r when %r is the goal, but %r in a full build'
                                 % (b, kk, d[1], k[0], recmap[b][kk][1])))
        if all(isinstance(got[b], dict) for b in prs) and set(got['make']) != set(got['ninja']):
            viol.append(('single-goal-steps', 'goal %r: make ran %r, ninja ran %r'
                         % (k[0], sorted(map(str, got['make'])), sorted(map(str, got['ninja'])))))
    for b, pr in prs.items():
        proj.restore(fullsnaps[b], pr.bld)
    # (3) rebuild sets after modifying each source
    snaps = {b: os.path.join(root, 'snap-' + b) for b in prs}
    for b in prs:
        proj.snapshot(prs[b].bld, snaps[b])
    srcsnap = os.path.join(root, 'snap-src')
    proj.snapshot(mk.src, srcsnap)
    for f in sorted(p.files):
        ran = {}
        for b in prs:
            proj.restore(snaps[b], prs[b].bld)
        proj.restore(srcsnap, mk.src)
        proj.modify(os.path.join(mk.src, f))
        for b in prs:
            rc, out, recs = prs[b].run(goals)
            n += 1
            ran[b] = set(step_table(prs[b], recs)) if rc == 0 else 'FAILED'
        if ran['make'] != ran['ninja']:
            # link copies may legitimately be skipped by one tool (content cannot be stale)
            sym = ran['make'] ^ ran['ninja'] if isinstance(ran['make'], set) and isinstance(ran['ninja'], set) \
                else None
            if sym is not None and all(tabs['make'].get(k, tabs['ninja'].get(k, {})).get('tool') == 'lnstub'
                                       for k in sym):
                continue
            viol.append(('rebuild-sets', 'after modifying %s make re-ran %r, ninja re-ran %r'
                         % (f, sorted(map(str, ran['make'])) if isinstance(ran['make'], set) else ran['make'],
                            sorted(map(str, ran['ninja'])) if isinstance(ran['ninja'], set) else ran['ninja'])))
    # (4) compile_commands.json
    for b in prs:
        proj.restore(snaps[b], prs[b].bld)
    for b, pr in prs.items():
        try:
            db = json.load(open(os.path.join(pr.bld, 'compile_commands.json')))
        except OSError:
            viol.append(('compdb-missing', b))
            continue
        seen_out = set()
        for e in db:
            out = e.get('output')
            if out is None:
                continue
            d = e['directory']
            k = tuple(sorted([os.path.relpath(os.path.normpath(os.path.join(d, out)), pr.bld)]))
            cand = [kk for kk in tabs[b] if isinstance(kk[0], str) and kk[0] != 'proc' and k[0] in kk]
            if not cand:
                if k[0] in {os.path.normpath(v.path) for v in p.values} or True:
                    # step not part of the goals we ran (e.g. an object nobody links): skip
                    continue
            s = tabs[b][cand[0]]
            seen_out.add(cand[0])
            args = e['arguments'] if 'arguments' in e else shlex.split(e['command'])
            want = [norm_arg(a) for a in norm_argv(s['argv'])]
            got = [norm_arg(a) for a in norm_argv(args)]
            # commands of custom steps may carry an env prefix / several commands: compare the
            # words of the process we logged as a contiguous slice
            ok = got == want or (('command' in e or len(got) > len(want)) and
                                 any(got[i:i + len(want)] == want for i in range(len(got))))
            if not ok:
                viol.append(('compdb-arguments', '%s: output %s: compile_commands.json says %r, the %s build ran %r'
                             % (b, out, got, b, want)))
            if os.path.normpath(d) != os.path.normpath(os.path.join(pr.bld, os.path.relpath(
                    logs_cwd(logs[b], s), pr.bld))):
                viol.append(('compdb-directory', '%s: output %s: directory %r, process ran in %r'
                             % (b, out, d, logs_cwd(logs[b], s))))
        for k, s in tabs[b].items():
            if s['tool'] in ('cc', 'ar', 'cpstub', 'lnstub') and k not in seen_out:
                viol.append(('compdb-entry-missing', '%s: no compile_commands.json entry for the step producing %r'
                             % (b, k)))
    return viol, n


def logs_cwd(recs, s):
    for r in recs:
        if r['argv'] == s['argv']:
            return r['cwd']
    return '?'


def _shard(arg):
    k, idxs, cfgs = arg
    progs = projgen.programs(k, ALPHABET)
    root = os.path.join(core.worker_dir(), 'c06')
    res = []
    for i in idxs:
        for ci, cfg in enumerate(cfgs):
            shutil.rmtree(root, ignore_errors=True)
            v, n = check_program(progs[i], cfg, root)
            res.append((i, ci, v, n))
    shutil.rmtree(root, ignore_errors=True)
    return res


def run(ctx):
    k = 2
    progs = projgen.programs(k, ALPHABET)
    cfgs = configs(ctx.thorough)
    idxs = core.seeded_order(range(len(progs)), ctx.seed)
    shards = [(k, ch, cfgs) for ch in core.chunks(idxs, max(1, len(idxs) // (8 * core.NCPU)))]
    res = core.pmap(_shard, shards)
    allv = []
    n = 0
    for sh in res:
        for i, ci, v, nb in sh:
            n += nb
            for law, detail in v:
                allv.append((law, progs[i].nsteps, i, ci, detail))
    allv.sort()
    seen = set()
    for law, _, i, ci, detail in allv:
        sig = (law, tuple(progs[i].kinds)[-1].split('+')[0])
        if sig in seen:
            continue
        seen.add(sig)
        ctx.violation('C06:%s:%s:cfg=%s' % (law, ' | '.join(progs[i].lines), json.dumps(cfgs[ci])),
                      'program [%s], configuration %r: %s: %s' % (' | '.join(progs[i].lines), cfgs[ci], law, detail),
                      case=dict(k=k, index=i, config=cfgs[ci], script=progs[i].script()), observed=detail)
    if n < 500:
        raise core.HarnessError('vacuous C06 exploration')
    ctx.level = 'exploration'
    ctx.cov.update(
        evaluations=n, distinct_nontrivial=len(progs) * len(cfgs),
        rule='all %d programs with <= %d steps (same step alphabet as C03) x %d configurations (library mode x prefix '
             'with a space x global options x CFLAGS/CPPFLAGS/LDFLAGS/LDLIBS), both backends from one script: target '
             'sets (make -p database vs manifest), per-step program/arguments/cwd/environment, re-executed steps '
             'after modifying each source, compile_commands.json entries vs the processes actually started. '
             'distinct = (program, configuration) pairs' % (len(progs), k, len(cfgs)),
        samples=[dict(script=progs[len(progs) // 2].script(), config=cfgs[-1])],
        exhaustive=True, programs=len(progs), configurations=len(cfgs), configure_and_build_runs=n,
        states=len(progs) * len(cfgs), transitions=n, traces_validated_against_impl=n)
    ctx.assumptions += ['refninja is the meaning of the Ninja manifest; documented Ninja-only colour flag removed '
                        'before comparing', 'steps outside the goals run (objects nobody links) are not compared '
                        'against compile_commands.json']


def replay(rec):
    c = rec['case']
    progs = projgen.programs(c['k'], ALPHABET)
    v, n = check_program(progs[c['index']], c['config'], os.path.join(core.worker_dir(), 'c06r'))
    for x in v:
        print(x)
    return not v
