"""C08 — automatic regeneration equals a fresh configure, and converges.

Shape C (explicit-state history exploration).  Projects using find_files in several variants
are configured; the history alphabet is a set of source-tree edits; after every edit the backend
tool itself (real make / refninja) is run, which triggers `bfg9000 regenerate --lazy` through the
generated regeneration rule (a logging wrapper counts invocations).  At every node of the
breadth-first exploration the regenerated build files are compared byte for byte with a fresh
configure into the same path with the same saved configuration, and a second run of the tool must
invoke bfg9000 zero times.
"""
import json
import os
import shutil
import stat

from kernel import core, bfg, proj

VARIANTS = {
    'one-pattern': {
        'build.bfg': "srcs = find_files('src/*.c')\nexecutable('prog', srcs)\n",
    },
    'patterns-extra-exclude': {
        'build.bfg': "srcs = find_files(['src/*.c', 'lib/**/*.c'], extra='*.txt', exclude=['skip*', 'old/'])\n"
                     "executable('prog', srcs)\n",
    },
    'platform-filter-nocache': {
        'build.bfg': "srcs = find_files('src/**/*.c', filter=filter_by_platform)\n"
                     "more = find_paths('lib/*.c', cache=False)\n"
                     "executable('prog', srcs)\n",
    },
    'directories': {
        'build.bfg': "inc = header_directory('lib', include='**/*.h')\n"
                     "d = directory('src', include='*.c')\n"
                     "executable('prog', ['main.c'], includes=[inc])\ninstall(inc)\n",
    },
    'submodule-options-pkgconfig': {
        'build.bfg': "project('p', version='1.0')\n"
                     "sub = submodule('lib')\n"
                     "executable('prog', find_files('src/*.c'), libs=[sub['lib']])\n"
                     "command('show', cmd=['rec', argv.name, argv.subname])\n"
                     "pkg_config('p', version='1.0')\n",
        'lib/build.bfg': "export(lib=static_library('l', find_files('*.c')))\n",
        'options.bfg': "argument('name', default='dflt')\nsubmodule('config')\n",
        'config/options.bfg': "argument('subname', default='sub0')\n",
    },
    'custom-filter': {
        # one search with a project-defined filter function (cannot be saved in the find cache)
        # next to an ordinary one
        'build.bfg': "def only_c(p):\n"
                     "    return FindResult.include if p.suffix.endswith('.c') else FindResult.exclude\n"
                     "srcs = find_files('src/*', filter=only_c)\n"
                     "libs = find_files('lib/*.c')\n"
                     "executable('prog', srcs + libs)\n",
    },
    'toolchain-file': {
        'build.bfg': "srcs = find_files('src/*.c')\nexecutable('prog', srcs)\n",
        'tc.bfg': "compile_options(['-DTC=1'], 'c')\nlink_options(['-Wl,-tc'])\n"
                  "environ['TCVAR'] = 'one'\n",
    },
}
BASE_FILES = {'main.c': 'int main(){}\n', 'src/a.c': 'int a;\n', 'src/b.c': 'int b;\n',
              'lib/l1.c': 'int l1;\n', 'lib/l.h': '#define L\n', 'lib/deep/l2.c': 'int l2;\n',
              'lib/deep/d.h': '#define D\n', 'src/notes.txt': 'n\n'}


def w(src, rel, content):
    p = os.path.join(src, rel)
    os.makedirs(os.path.dirname(p), exist_ok=True)
    with open(p, 'w') as f:
        f.write(content)


def op_add_match(src, n):
    w(src, 'src/new%d.c' % n, 'int n%d;\n' % n)


def op_add_nomatch(src, n):
    w(src, 'src/readme%d.md' % n, 'x\n')


def op_add_extra(src, n):
    w(src, 'src/extra%d.txt' % n, 'x\n')


def op_remove_match(src, n):
    for c in ('src/b.c', 'src/a.c'):
        p = os.path.join(src, c)
        if os.path.exists(p):
            os.remove(p)
            return
    return 'noop'


def op_rename_match(src, n):
    for c in ('src/a.c', 'src/b.c'):
        p = os.path.join(src, c)
        if os.path.exists(p):
            os.rename(p, os.path.join(src, 'src/renamed%d.c' % n))
            return
    return 'noop'


def op_add_dir(src, n):
    w(src, 'lib/sub%d/in.c' % n, 'int s%d;\n' % n)
    w(src, 'lib/sub%d/in.h' % n, '#define S\n')


def op_add_dir_src(src, n):
    w(src, 'src/linux/plat%d.c' % n, 'int p;\n')
    w(src, 'src/windows/plat%d.c' % n, 'int p;\n')


def op_remove_dir(src, n):
    p = os.path.join(src, 'lib', 'deep')
    if os.path.isdir(p):
        shutil.rmtree(p)
        return
    return 'noop'


def op_edit_script(src, n):
    with open(os.path.join(src, 'build.bfg'), 'a') as f:
        f.write("executable('added%d', ['main.c'])\n" % n)


def op_touch_script(src, n):
    os.utime(os.path.join(src, 'build.bfg'))


def op_edit_aux(src, n):
    """options.bfg / submodule script, whichever the variant has"""
    p = os.path.join(src, 'options.bfg')
    if os.path.exists(p):
        with open(p, 'w') as f:
            f.write("argument('name', default='changed%d')\n" % n)
        return
    p = os.path.join(src, 'lib', 'build.bfg')
    if os.path.exists(p):
        os.utime(p)
        return
    return 'noop'


def op_edit_submodule(src, n):
    """the script of an existing submodule declares one more target"""
    p = os.path.join(src, 'lib', 'build.bfg')
    if not os.path.exists(p):
        return 'noop'
    with open(p, 'a') as f:
        f.write("executable('subprog%d', ['l1.c'])\n" % n)


def op_edit_nested_options(src, n):
    """an options script that options.bfg itself includes"""
    p = os.path.join(src, 'config', 'options.bfg')
    if not os.path.exists(p):
        return 'noop'
    with open(p, 'w') as f:
        f.write("argument('subname', default='sub-changed%d')\n" % n)


def op_add_other_platform(src, n):
    """a file that matches the patterns but is named for another platform (filter_by_platform makes
    it an 'extra' file: distributed, not built)"""
    w(src, 'src/helper%d_windows.c' % n, 'int hw%d;\n' % n)


def op_drop_find(src, n):
    """the script stops using find_files and starts executing a script that was no input before"""
    w(src, 'aux/build.bfg', "export(n=%d)\n" % n)
    w(src, 'build.bfg', "aux = submodule('aux')\nexecutable('prog', ['main.c'])\n")


def op_edit_new_submodule(src, n):
    p = os.path.join(src, 'aux', 'build.bfg')
    if not os.path.exists(p):
        return 'noop'
    with open(p, 'a') as f:
        f.write("executable('auxprog%d', ['../main.c'])\n" % n)


def op_add_excluded(src, n):
    w(src, 'src/skip%d.c' % n, 'int s;\n')
    w(src, 'lib/old/o%d.c' % n, 'int o;\n')


def op_toolchain_drop(src, n):
    """the toolchain file stops setting something it used to set"""
    p = os.path.join(src, 'tc.bfg')
    if not os.path.exists(p):
        return 'noop'
    lines = open(p).read().splitlines(True)
    if len(lines) <= 1:
        return 'noop'
    with open(p, 'w') as f:
        f.writelines(lines[1:])


def op_toolchain_edit(src, n):
    """a changed value, and a variable derived from its own current value"""
    p = os.path.join(src, 'tc.bfg')
    if not os.path.exists(p):
        return 'noop'
    with open(p, 'a') as f:
        f.write("compile_options(['-DTC_EDIT=%d'], 'c')\n"
                "environ['CPPFLAGS'] = environ.get('CPPFLAGS', '') + ' -DAPPENDED%d'\n" % (n, n))


def op_add_empty_dir(src, n):
    """a new directory below a searched one that (so far) holds nothing that matches"""
    os.makedirs(os.path.join(src, 'lib', 'fresh%d' % n), exist_ok=True)
    os.makedirs(os.path.join(src, 'src', 'fresh%d' % n), exist_ok=True)


def op_fill_new_dirs(src, n):
    """a matching file inside each directory created by add-empty-dir"""
    done = False
    for top in ('lib', 'src'):
        for d in sorted(os.listdir(os.path.join(src, top))):
            if d.startswith('fresh') and os.path.isdir(os.path.join(src, top, d)):
                w(src, '%s/%s/filled%d.c' % (top, d, n), 'int f%d;\n' % n)
                w(src, '%s/%s/filled%d.h' % (top, d, n), '#define F\n')
                done = True
    return None if done else 'noop'


OPS = [('add-matching', op_add_match), ('add-nonmatching', op_add_nomatch), ('add-extra', op_add_extra),
       ('remove-matching', op_remove_match), ('rename-matching', op_rename_match),
       ('add-dir', op_add_dir), ('add-platform-dirs', op_add_dir_src), ('remove-dir', op_remove_dir),
       ('edit-build.bfg', op_edit_script), ('touch-build.bfg', op_touch_script),
       ('edit-options/submodule', op_edit_aux), ('add-excluded', op_add_excluded),
       ('drop-find_files', op_drop_find), ('edit-new-submodule', op_edit_new_submodule),
       ('add-empty-dir', op_add_empty_dir), ('fill-new-dirs', op_fill_new_dirs),
       ('toolchain-drop-line', op_toolchain_drop), ('toolchain-edit', op_toolchain_edit),
       ('edit-submodule-script', op_edit_submodule), ('edit-nested-options', op_edit_nested_options),
       ('add-other-platform-file', op_add_other_platform)]
OPD = dict(OPS)


def primary(bld, backend):
    out = {}
    names = ['Makefile' if backend == 'make' else 'build.ninja', 'compile_commands.json',
             'pkgconfig/p.pc', 'pkgconfig/p-uninstalled.pc']
    for n in names:
        p = os.path.join(bld, n)
        out[n] = open(p).read() if os.path.exists(p) else None
    p = os.path.join(bld, '.bfg_find_deps')
    out['.bfg_find_deps'] = sorted(open(p).read().split()) if os.path.exists(p) else None
    p = os.path.join(bld, '.bfg_find_cache')
    if os.path.exists(p):
        d = json.load(open(p))['data']
        out['.bfg_find_cache'] = sorted(json.dumps(e, sort_keys=True) for e in d['cache']) + \
            [json.dumps(d['regen_files'], sort_keys=True)]
    else:
        out['.bfg_find_cache'] = None
    return out


def tree_state(src):
    out = []
    for b, ds, fs in os.walk(src):
        ds.sort()
        for f in sorted(fs):
            p = os.path.join(b, f)
            out.append((os.path.relpath(p, src), open(p).read()))
        if not fs and not ds:
            out.append((os.path.relpath(b, src) + '/', ''))
    return tuple(out)


class Node:
    def __init__(self, pr, bfglog):
        self.pr = pr
        self.bfglog = bfglog
        self.skips = 0

    def invocations(self):
        if not os.path.exists(self.bfglog):
            return []
        return open(self.bfglog).read().splitlines()

    def run_tool(self):
        if os.path.exists(self.bfglog):
            os.remove(self.bfglog)
        rc, out, recs = self.pr.run([])
        return rc, out, self.invocations()

    def fresh(self):
        """configure into the same path with the same saved configuration"""
        aside = self.pr.bld + '.aside'
        shutil.rmtree(aside, ignore_errors=True)
        os.rename(self.pr.bld, aside)
        try:
            r = self.pr.configure()
            if r.rc != 0:
                return None, r.err
            return primary(self.pr.bld, self.pr.backend), ''
        finally:
            shutil.rmtree(self.pr.bld, ignore_errors=True)
            os.rename(aside, self.pr.bld)


def make_node(root, variant, backend):
    files = dict(BASE_FILES)
    files.update(VARIANTS[variant])
    wrapper = os.path.join(root, 'bfgwrap')
    os.makedirs(root, exist_ok=True)
    bfglog = os.path.join(root, 'bfg.log')
    with open(wrapper, 'w') as f:
        f.write('#!/bin/sh\necho "$*" >> %s\nexec %s %s "$@"\n'
                % (bfglog, os.path.join(bfg.VENV_BIN, 'python'), bfg.BFG_CLI))
    os.chmod(wrapper, os.stat(wrapper).st_mode | stat.S_IEXEC)
    args = []
    if 'tc.bfg' in files:
        args = ['--toolchain', os.path.join(root, 'p', 'src', 'tc.bfg')]
    pr = proj.Proj(os.path.join(root, 'p'), backend, files, files['build.bfg'],
                   extra_env={'BFG9000': wrapper}, args=args)
    return Node(pr, bfglog)


def check_node(node, hist, viol):
    """after the last edit of `hist`: run the tool, compare with a fresh configure, converge"""
    pr = node.pr
    cachep = os.path.join(pr.bld, '.bfg_find_cache')
    c0 = os.stat(cachep).st_mtime_ns if os.path.exists(cachep) else None
    rc, out, inv = node.run_tool()
    if rc == 0 and any('--lazy' in i for i in inv) and c0 is not None and os.path.exists(cachep) and \
            os.stat(cachep).st_mtime_ns == c0:
        node.skips += 1        # bfg9000 was started and decided not to regenerate
    label = ' ; '.join(hist)
    now = primary(pr.bld, pr.backend)
    fresh, err = node.fresh()
    if rc != 0:
        # the edited project may simply be invalid (e.g. no source file left): then a fresh
        # configure fails as well and the history leaves the property's domain
        if fresh is not None:
            viol.append(('tool-fails', label, out[-300:]))
        return False
    if fresh is None:
        viol.append(('fresh-configure-fails', label, err[-300:]))
        return False
    # files a fresh configure does not write at all (leftovers of an earlier generation, e.g. the
    # .pc files of a pkg_config() call that was removed) are not demanded to disappear
    diff = [k for k in fresh if fresh[k] is not None and fresh[k] != now[k]]
    if diff:
        skipped = not any('regenerate' in i for i in inv)
        viol.append(('differs-from-fresh-configure', label,
                     '%s differ after the tool ran (bfg9000 invoked %d time(s)%s)'
                     % (diff, len(inv), '; regeneration was skipped' if skipped else '')))
    rc2, out2, inv2 = node.run_tool()
    if rc2 != 0:
        viol.append(('second-run-fails', label, out2[-300:]))
    elif inv2:
        viol.append(('does-not-converge', label, 'a second run of the tool invoked bfg9000 again: %r'
                     % inv2))
    return True


def _explore(arg):
    variant, backend, depth, first_ops = arg
    root = os.path.join(core.worker_dir(), 'c08')
    shutil.rmtree(root, ignore_errors=True)
    node = make_node(root, variant, backend)
    pr = node.pr
    r = pr.configure()
    if r.rc != 0:
        raise core.HarnessError('configure failed for %s/%s: %s' % (variant, backend, r.err[-300:]))
    viol = []
    rc, out, inv = node.run_tool()
    if rc != 0:
        raise core.HarnessError('initial build failed: ' + out[-300:])
    # the build right after configure must already converge
    rc, out, inv = node.run_tool()
    if inv:
        viol.append(('does-not-converge', '(initial build)', repr(inv)))
    snaps = os.path.join(root, 'snaps')
    os.makedirs(snaps)
    proj.snapshot(pr.root, os.path.join(snaps, '0'))
    seen = {tree_state(pr.src)}
    frontier = [([], '0')]
    states = 1
    transitions = 0
    nsnap = 0
    for lvl in range(depth):
        nxt = []
        for hist, snap in frontier:
            ops = first_ops if lvl == 0 else [o for o, _ in OPS]
            for op in ops:
                proj.restore(os.path.join(snaps, snap), pr.root)
                proj.tick()
                if OPD[op](pr.src, lvl) == 'noop':
                    continue
                proj.tick()
                transitions += 1
                h2 = hist + [op]
                ok = check_node(node, h2, viol)
                st = tree_state(pr.src)
                if ok and st not in seen and lvl + 1 < depth:
                    seen.add(st)
                    nsnap += 1
                    proj.snapshot(pr.root, os.path.join(snaps, str(nsnap)))
                    nxt.append((h2, str(nsnap)))
                    states += 1
                elif st not in seen:
                    seen.add(st)
                    states += 1
        frontier = nxt
    shutil.rmtree(root, ignore_errors=True)
    return variant, backend, viol, states, transitions, node.skips


def run(ctx):
    depth = 3 if ctx.thorough else 2
    variants = list(VARIANTS) if ctx.thorough else ['one-pattern', 'patterns-extra-exclude', 'directories',
                                                    'submodule-options-pkgconfig', 'toolchain-file', 'custom-filter',
                                                    'platform-filter-nocache']
    shards = []
    for v in variants:
        for b in ('make', 'ninja'):
            # shard on the first operation
            for ch in core.chunks([o for o, _ in OPS], 2 if ctx.thorough else 3):
                shards.append((v, b, depth, ch))
    res = core.pmap(_explore, core.seeded_order(shards, ctx.seed))
    allv = []
    states = transitions = 0
    skips = 0
    for v, b, viol, st, tr, sk in res:
        skips += sk
        states += st
        transitions += tr
        for law, label, detail in viol:
            allv.append((law, v, b, label, detail))
    allv.sort(key=lambda t: (t[0], t[1], t[2], t[3].count(';'), t[3]))
    seen = set()
    for law, v, b, label, detail in allv:
        if (law, v, b) in seen:
            continue
        seen.add((law, v, b))
        ctx.violation('C08:%s:%s:%s:%s' % (law, v, b, label),
                      'variant %s, %s backend, after [%s]: %s: %s' % (v, b, label, law, detail),
                      case=dict(variant=v, backend=b, history=label.split(' ; ')), observed=detail)
    if transitions < 100:
        raise core.HarnessError('vacuous C08 exploration')
    if skips == 0:
        # not a violation (skipping is an optimisation), but then "skipped only when identical" was
        # never exercised: say so
        print('NOTE C08: bfg9000 never skipped a lazy regeneration in this exploration')
    ctx.level = 'model_checking'
    ctx.cov.update(
        states=states, transitions=transitions, traces_validated_against_impl=transitions,
        samples=[dict(variant=variants[0], history=['add-matching', 'remove-dir'])],
        evaluations=transitions, distinct_nontrivial=states,
        rule='project variants %r x {make, ninja}: breadth-first exploration to depth %d over %d edit operations %r '
             'from the built initial state and from every reached state (state = source tree contents; build trees '
             'carried along as snapshots); after every edit the backend tool is run (it triggers regenerate --lazy '
             'through a counting wrapper); oracles: build files byte-identical to a fresh configure into the same '
             'path, auxiliary files equal as sets, a second tool run invokes bfg9000 zero times'
             % (variants, depth, len(OPS), [o for o, _ in OPS]),
        exhaustive=True, variants=len(variants), depth=depth, lazy_regenerations_skipped=skips)
    ctx.assumptions += [
        'edits are strictly newer than the last generation (ns timestamps); equal-timestamp edits are excluded: every '
        'mtime-based tool misses them',
        'toolchain-file edits are not part of this alphabet (C09 covers the saved configuration)',
        'refninja is the meaning of the Ninja manifest (Appendix A)']


def replay(rec):
    c = rec['case']
    hist = c['history']
    root = os.path.join(core.worker_dir(), 'c08r')
    shutil.rmtree(root, ignore_errors=True)
    node = make_node(root, c['variant'], c['backend'])
    print(node.pr.configure())
    print(node.run_tool()[1][-300:])
    viol = []
    for i, op in enumerate(hist):
        proj.tick()
        OPD[op](node.pr.src, i)
        proj.tick()
        check_node(node, hist[:i + 1], viol)
    for v in viol:
        print(v)
    return not viol
