"""C04 — file names with special characters denote the same file in the build tool.

Shape A.  Every path-component name of the shapes c, xc, cx, xcy (c over printable ASCII) --
thorough: also every pair of special characters in the middle -- is used in every role (source
file, source directory, named output, output sub-directory, copied file, directory walked by
find_files) for both backends.  Observed on disk with the stub toolchain: the step creates the
file at exactly the expected path and nowhere else, a second build runs nothing, modifying the
prerequisite re-runs exactly the consuming step, clean removes the outputs and nothing else.

Which (name, slot) pairs the target format can represent at all is established at run time by a
hand-written reference build file per name: a small search over candidate encodings, executed by
the real make (rule 3 of DESIGN.md §4).  Only pairs with a witness are demanded of bfg9000.
"""
import itertools
import json
import os
import shutil
import subprocess
import time

from kernel import core, bfg, proj

SPECIALS = ''.join(chr(c) for c in range(0x20, 0x7f) if not chr(c).isalnum() and chr(c) not in '/\\')
ROLES = ['src', 'srcdir', 'out', 'outdir', 'copy', 'csrc']


def names(thorough):
    out = []
    seen = set()

    def add(n):
        if n not in seen and valid_name(n):
            seen.add(n)
            out.append(n)
    chars = [chr(c) for c in range(0x20, 0x7f) if chr(c) not in '/\\'] + ['\t']
    for c in chars:
        if c.isalnum() and c not in 'a0':
            continue
        for n in (c, 'x' + c, c + 'x', 'x' + c + 'y'):
            add(n)
    # a blank next to each special character: word splitting inside make functions and the
    # `name =` assignment syntax only show with a neighbouring blank (thorough run: 'x  y', 'x =y')
    for b in SPECIALS:
        add('x ' + b + 'y')
        add('x' + b + ' y')
    if thorough:
        for a, b in itertools.product(SPECIALS, repeat=2):
            add('x' + a + b + 'y')
    return out


def valid_name(n):
    if n in ('', '.', '..') or '/' in n or '\\' in n:
        return False
    if len(n) >= 2 and n[1] == ':' and n[0].isalpha():
        return False          # drive prefix: bfg9000 defines it as such
    if os.path.expanduser(n) != n:
        return False          # documented user expansion
    return True


# ------------------------------------------------------------------ Make reference witnesses

def sh_quote(s):
    return "'" + s.replace("'", "'\\''") + "'"


def recipe_arg(path):
    if path.startswith('-'):
        path = './' + path
    return sh_quote(path).replace('$', '$$')


def encodings(path, name):
    """candidate encodings of `path` (which contains `name`) in a Makefile target/prerequisite
    slot: `$` doubled; every assignment of {raw, backslash-escaped} to the distinct special
    characters of the name; plus a ./ prefix variant for relative paths"""
    specials = sorted(set(c for c in name if not c.isalnum() and c not in '._-+,@/$'))[:4]
    out = []
    for mask in itertools.product((False, True), repeat=len(specials)):
        esc = {c for c, m in zip(specials, mask) if m}
        s = ''.join(('$$' if c == '$' else ('\\' + c if c in esc else c)) for c in path)
        out.append(s)
        if not path.startswith('/'):
            out.append('./' + s)
    return sorted(set(out), key=lambda x: (x.count('\\') + x.startswith('./'), len(x), x))


def run_make(d, env, timeout=20):
    try:
        p = subprocess.run(['make', '-j1'], cwd=d, env=env, stdin=subprocess.DEVNULL,
                           stdout=subprocess.PIPE, stderr=subprocess.STDOUT, text=True,
                           errors='replace', timeout=timeout)
        return p.returncode, p.stdout
    except subprocess.TimeoutExpired:
        return -9, 'timeout'


def listing(d):
    out = []
    for b, ds, fs in os.walk(d):
        for f in fs:
            out.append(os.path.relpath(os.path.join(b, f), d))
    return out


def decoys(d, path, name):
    """siblings that an unescaped glob character in the name would match"""
    dirname, base = os.path.split(os.path.join(d, path))
    for rep in ('q', 'qq'):
        alt = base
        for c in '*?':
            alt = alt.replace(c, rep)
        if '[' in alt and ']' in alt[alt.index('['):]:
            i = alt.index('[')
            j = alt.index(']', i)
            inner = alt[i + 1:j]
            if inner:
                alt = alt[:i] + inner[0] + alt[j + 1:]
        if alt != base and alt not in ('', '.', '..'):
            os.makedirs(dirname, exist_ok=True)
            dp = os.path.join(dirname, alt)
            if not os.path.lexists(dp):
                if os.path.isdir(os.path.join(dirname, base)):
                    os.makedirs(dp)
                else:
                    open(dp, 'w').write('decoy\n')


def observe_reference(d, env, target, prereq, touch_dir=None):
    """the four observations on a hand-written Makefile already in d"""
    before = set(listing(d))
    rc, out = run_make(d, env)
    if rc != 0:
        return False
    tp = os.path.join(d, target)
    if not os.path.isfile(tp):
        return False
    new = set(listing(d)) - before
    if any(os.path.basename(n) != '.dir' and n != target for n in new):
        return False
    c1 = open(tp, 'rb').read()
    m1 = os.stat(tp).st_mtime_ns
    rc, out = run_make(d, env)
    if rc != 0 or os.stat(tp).st_mtime_ns != m1:
        return False
    if touch_dir:
        with open(os.path.join(d, touch_dir, 'added.in'), 'w') as f:
            f.write('x')
    else:
        proj.modify(os.path.join(d, prereq))
    rc, out = run_make(d, env)
    if rc != 0 or os.stat(tp).st_mtime_ns == m1:
        return False
    if not touch_dir and open(tp, 'rb').read() != open(os.path.join(d, prereq), 'rb').read():
        return False
    return True


def slot_witness(kind, path, name, scratch, env):
    """kind in target / prereq / orderonly / dirdep; path: the concrete relative path the role
    puts in that slot.  -> first encoding (simplest first) passing all observations, or None"""
    for enc in encodings(path, name):
        d = os.path.join(scratch, 'w')
        shutil.rmtree(d, ignore_errors=True)
        os.makedirs(d)
        try:
            with open(os.path.join(d, 'plain.in'), 'w') as f:
                f.write('data\n')
            if kind == 'target':
                os.makedirs(os.path.dirname(os.path.join(d, path)), exist_ok=True)
                decoys(d, path, name)
                mk = '.SUFFIXES:\n%s: plain.in\n\tcp plain.in %s\n' % (enc, recipe_arg(path))
                ok = (mk, path, 'plain.in', None)
            elif kind == 'prereq':
                os.makedirs(os.path.dirname(os.path.join(d, path)), exist_ok=True)
                with open(os.path.join(d, path), 'w') as f:
                    f.write('src\n')
                decoys(d, path, name)
                mk = '.SUFFIXES:\nplain.out: %s\n\tcp %s plain.out\n' % (enc, recipe_arg(path))
                ok = (mk, 'plain.out', path, None)
            elif kind == 'orderonly':
                os.makedirs(os.path.dirname(os.path.join(d, path)) or d, exist_ok=True)
                decoys(d, path, name)
                mk = ('.SUFFIXES:\nplain.out: plain.in | %s/.dir\n\tcp plain.in plain.out\n'
                      '%s/.dir:\n\tmkdir -p %s\n\ttouch %s\n'
                      % (enc, enc, recipe_arg(path), recipe_arg(path + '/.dir')))
                ok = (mk, 'plain.out', 'plain.in', None)
            else:   # dirdep: a directory as prerequisite plus its empty "makeified" rule
                os.makedirs(os.path.join(d, path))
                with open(os.path.join(d, path, 'a.in'), 'w') as f:
                    f.write('a\n')
                decoys(d, path, name)
                mk = '.SUFFIXES:\nstamp.out: %s\n\ttouch stamp.out\n%s:\n' % (enc, enc)
                ok = (mk, 'stamp.out', None, path)
        except OSError:
            return None
        with open(os.path.join(d, 'Makefile'), 'w') as f:
            f.write(ok[0])
        if observe_reference(d, env, ok[1], ok[2], ok[3]):
            if kind == 'orderonly' and not os.path.isfile(os.path.join(d, path, '.dir')):
                continue
            return enc
    return None


def role_slots(role, name):
    return {
        'src': [('prereq', 'S/' + name + '.in')],
        'srcdir': [('prereq', 'S/sd/' + name + '/f.in')],
        'out': [('target', name + '.out')],
        'outdir': [('target', 'od/' + name + '/o.txt'), ('orderonly', 'od/' + name)],
        'copy': [('target', 'cp/' + name), ('prereq', 'S/cp/' + name)],
        'csrc': [('prereq', 'S/' + name + '.c'), ('target', 'cs.int/' + name + '.o')],
        'csrcflat': [('prereq', 'S/' + name + '.c'), ('target', name + '.o')],
        'find': [('dirdep', 'S/fd/' + name), ('prereq', 'S/fd/' + name + '/a.in'),
                 ('target', 'found/fd/' + name + '/a.in'), ('orderonly', 'found/fd/' + name)],
        # the walked directory only as a prerequisite: outputs are plainly named (so names that
        # are impossible as a Make *target*, e.g. with %, are still demanded here)
        'findsrc': [('dirdep', 'S/fd/' + name), ('prereq', 'S/fd/' + name + '/a.in')],
    }[role]


def make_witness(name, scratch, env):
    """-> {role: {slot path: encoding or None}}"""
    res = {}
    cache = {}
    for role in ROLES + ['find', 'findsrc', 'csrcflat']:
        res[role] = {}
        for kind, path in role_slots(role, name):
            if (kind, path) not in cache:
                cache[(kind, path)] = slot_witness(kind, path, name, scratch, env)
            res[role]['%s %s' % (kind, path)] = cache[(kind, path)]
    # a compiled source also travels through the depfile the COMPILER writes: can make consume the
    # one gcc itself writes for this source name and object path (hand-written Makefile)?
    enc = res['csrc']['target cs.int/%s.o' % name]
    if enc is not None and res['csrc']['prereq S/%s.c' % name] is not None and '"' not in name:
        ok = gcc_depfile_roundtrip(name + '.c', scratch, env, 'cs.int/%s.o' % name, enc)
        res['csrc']['gcc depfile'] = 'ok' if ok else None
    else:
        res['csrc']['gcc depfile'] = None
    res['csrcflat']['gcc depfile'] = res['csrc']['gcc depfile']
    return res


def feasible(backend, role, name, wit):
    if backend == 'ninja':
        # the manifest language can escape everything in a path except `|` (manual: $$, $space, $:)
        if '|' in name:
            return False
        if role in ('find', 'findsrc', 'csrc', 'csrcflat'):
            # the depfile bfg9000 writes is read through refninja's deliberately partial depfile
            # dialect (Appendix A): only names needing no backslash except before space / #
            return not any(c in name for c in '?*[]%:|\t\\') and not name.startswith('~')
        return True
    return all(v is not None for v in wit[role].values())


# ------------------------------------------------------------------ roles through bfg9000

def role_decl(role, name):
    """-> (script lines, source files, expected outputs (bld-relative), prerequisite to modify
    (src-relative), outputs that must be re-made after the modification)"""
    if role == 'src':
        return (["default(copy_file('o_src.txt', %r))" % (name + '.in')],
                {name + '.in': 'src\n'}, ['o_src.txt'], name + '.in')
    if role == 'srcdir':
        return (["default(copy_file('o_srcdir.txt', %r))" % ('sd/' + name + '/f.in')],
                {'sd/' + name + '/f.in': 'srcdir\n'}, ['o_srcdir.txt'], 'sd/' + name + '/f.in')
    if role == 'out':
        return (["default(build_step(%r, cmd=['gen', build_step.output, '--', build_step.input], "
                 "files=['plain1.in']))" % (name + '.out')],
                {'plain1.in': 'p\n'}, [name + '.out'], 'plain1.in')
    if role == 'outdir':
        return (["default(build_step(%r, cmd=['gen', build_step.output, '--', build_step.input], "
                 "files=['plain2.in']))" % ('od/' + name + '/o.txt')],
                {'plain2.in': 'p\n'}, ['od/' + name + '/o.txt'], 'plain2.in')
    if role == 'copy':
        return (["default(copy_file(file=%r))" % ('cp/' + name)],
                {'cp/' + name: 'copy\n'}, ['cp/' + name], 'cp/' + name)
    if role == 'csrc':
        # a compiled source: the object's name derives from it and is handed to the link rule
        return (["default(executable('cs', [%r]))" % (name + '.c')],
                {name + '.c': '#include "csrc_plain.h"\nint main(){return 0;}\n', 'csrc_plain.h': '#define P 1\n'},
                ['cs', 'cs.int/' + name + '.o'], name + '.c')
    if role == 'csrcflat':
        # the same without intermediate directories: the object sits in the build root, where a
        # name starting with '-' needs a ./ to remain a file name
        return (["project('flat', intermediate_dirs=False)", "default(executable('csf', [%r]))" % (name + '.c')],
                {name + '.c': '#include "csrc_plain.h"\nint main(){return 0;}\n', 'csrc_plain.h': '#define P 1\n'},
                ['csf', name + '.o'], name + '.c')
    raise KeyError(role)


INFRA = ('Makefile', 'build.ninja', 'compile_commands.json', '.ninja_log', '.ninja_deps')


def product_files(bld):
    out = set()
    for f in listing(bld):
        base = os.path.basename(f)
        if f in INFRA or base.startswith('.bfg_') or base == '.dir' or f.endswith('.stamp') or \
                f.endswith('.tmp') or f.endswith('.o.d'):
            continue
        out.add(f)
    return out


def run_roles(root, backend, name, roles):
    """-> {role: None (ok) or failure text}"""
    lines, files, expect, prereq = [], {}, {}, {}
    for r in roles:
        l, f, e, p = role_decl(r, name)
        lines += l
        files.update(f)
        expect[r] = e
        prereq[r] = p
    try:
        pr = proj.Proj(root, backend, files, '\n'.join(lines) + '\n')
    except OSError as e:
        return {r: None for r in roles}       # the file system itself cannot hold the name
    res = {r: None for r in roles}
    r0 = pr.configure()
    if r0.rc != 0:
        msg = 'configure fails: ' + (r0.err.strip().splitlines()[-1][:200] if r0.err.strip() else '')
        return {r: msg for r in roles}
    src_before = proj.contents(pr.src)
    rc, out, recs = pr.run([], timeout=30)
    if rc != 0:
        return {r: 'build fails: ' + out[-250:] for r in roles}
    prods = product_files(pr.bld)
    want = set(e for r in roles for e in expect[r])
    if prods != want:
        for r in roles:
            miss = [e for e in expect[r] if e not in prods]
            if miss:
                res[r] = 'expected %r to be created; build created %r' % (miss, sorted(prods - want))
        if all(v is None for v in res.values()):
            return {r: 'files created at unexpected paths: %r' % sorted(prods - want) for r in roles}
    for r in roles:
        if res[r] is None and r in ('src', 'srcdir', 'copy'):
            got = open(os.path.join(pr.bld, expect[r][0]), 'rb').read()
            if got != files[prereq[r]].encode():
                res[r] = 'output has the wrong content %r' % got[:40]
    rc, out, recs = pr.run([])
    if rc != 0 or recs:
        msg = 'second build is not a no-op: rc=%d ran %r' % (rc, [x['argv'][:3] for x in recs][:3])
        return {r: (res[r] or msg) for r in roles}
    for r in roles:
        if res[r] is not None:
            continue
        proj.modify(os.path.join(pr.src, prereq[r]))
        rc, out, recs = pr.run([])
        ran = set()
        for s in proj.steps_of(recs):
            ran |= {os.path.relpath(o, pr.bld) for o in s['outputs']}
        if rc != 0:
            res[r] = 'rebuild after modifying %r fails: %s' % (prereq[r], out[-200:])
        elif ran != set(expect[r]):
            res[r] = 'after modifying %r the build re-made %r, expected %r' % (prereq[r], sorted(ran),
                                                                                 expect[r])
        elif r in ('csrc', 'csrcflat'):
            # the oddly named OBJECT's compiler-written depfile must be read back: a plainly named
            # header it includes changes
            proj.modify(os.path.join(pr.src, 'csrc_plain.h'))
            rc, out, recs = pr.run([])
            ran = set()
            for s in proj.steps_of(recs):
                ran |= {os.path.relpath(o, pr.bld) for o in s['outputs']}
            if rc != 0 or ran != set(expect[r]):
                res[r] = ('after modifying the header csrc_plain.h included by %r the build re-made %r, expected %r'
                          % (prereq[r], sorted(ran), expect[r]))
    rc, out, recs = pr.run(['clean'])
    left = product_files(pr.bld)
    if rc != 0:
        return {r: (res[r] or 'clean fails: ' + out[-200:]) for r in roles}
    for r in roles:
        if res[r] is None and any(e in left for e in expect[r]):
            res[r] = 'clean leaves %r behind' % [e for e in expect[r] if e in left]
    infra = 'Makefile' if backend == 'make' else 'build.ninja'
    if not os.path.exists(os.path.join(pr.bld, infra)):
        return {r: (res[r] or 'clean removed the build file') for r in roles}
    src_after = proj.contents(pr.src)
    mod = {prereq[r] for r in roles} | {'csrc_plain.h'}
    if {k: v for k, v in src_after.items() if k not in mod} != \
            {k: v for k, v in src_before.items() if k not in mod}:
        return {r: (res[r] or 'the source tree was changed') for r in roles}
    return res


def run_find(root, backend, name, consume=False):
    """directory walked by find_files: found files are built, adding a file re-generates.
    consume=True: the found files are the inputs of one plainly named step instead of being
    copied to paths that repeat the name"""
    files = {'fd/' + name + '/a.in': 'a\n'}
    script = "default(*copy_files(find_files(%r), directory='found'))\n" % ('fd/' + name + '/*.in')
    if consume:
        script = ("default(build_step('fs_out.txt', cmd=['gen', build_step.output, '--', "
                  "build_step.input], files=find_files(%r)))\n" % ('fd/' + name + '/*.in'))
    try:
        pr = proj.Proj(root, backend, files, script)
    except OSError:
        return None
    r0 = pr.configure()
    if r0.rc != 0:
        return 'configure fails: ' + (r0.err.strip().splitlines()[-1][:200] if r0.err.strip() else '')
    rc, out, recs = pr.run([], timeout=30)
    exp = 'fs_out.txt' if consume else os.path.join('found', 'fd', name, 'a.in')
    if rc != 0 or not os.path.exists(os.path.join(pr.bld, exp)):
        return 'build fails or %r not created: %s' % (exp, out[-200:])
    rc, out, recs = pr.run([])
    if rc != 0 or recs or 'regenerat' in out:
        return 'second build is not a no-op: %s' % out[-200:]
    proj.tick()
    with open(os.path.join(pr.src, 'fd', name, 'b.in'), 'w') as f:
        f.write('b\n')
    proj.tick()
    rc, out, recs = pr.run([])
    exp2 = os.path.join('found', 'fd', name, 'b.in')
    if rc != 0:
        return 'build after adding a file fails: %s' % out[-250:]
    if consume:
        used = [a for r in recs if r['tool'] == 'gen' for a in r['argv']]
        if not any(a.endswith('/b.in') for a in used):
            return 'a file added to the walked directory is not noticed (no regeneration / step not re-run): %s' % out[-150:]
        rc, out, recs = pr.run([])
        if rc != 0 or recs or 'regenerat' in out:
            return 'build after the regeneration is not a no-op: %s' % out[-200:]
        return None
    if not os.path.exists(os.path.join(pr.bld, exp2)):
        return 'a file added to the walked directory is not noticed (no regeneration): %s' % out[-150:]
    return None


def gcc_depfile_roundtrip(hname, scratch, env, obj='main.o', enc='main.o'):
    """reference without bfg9000: can make consume the depfile gcc writes for this header name
    (and this object path, written `enc` in the hand-written Makefile)?"""
    d = os.path.join(scratch, 'gccref')
    shutil.rmtree(d, ignore_errors=True)
    os.makedirs(d)
    with open(os.path.join(d, hname), 'w') as f:
        f.write('#define V 1\n')
    with open(os.path.join(d, 'main.c'), 'w') as f:
        f.write('#include "%s"\nint main(void){return V;}\n' % hname)
    with open(os.path.join(d, 'Makefile'), 'w') as f:
        q = recipe_arg(obj)
        f.write('%s: main.c\n\tgcc -c main.c -MMD -MF %s.d -o %s\n-include %s.d\n' % (enc, q, q, enc))
    os.makedirs(os.path.dirname(os.path.join(d, obj)), exist_ok=True)
    rc, out = run_make(d, env)
    if rc != 0:
        return False
    m1 = os.stat(os.path.join(d, obj)).st_mtime_ns
    rc, out = run_make(d, env)
    if rc != 0 or os.stat(os.path.join(d, obj)).st_mtime_ns != m1:
        return False
    proj.modify(os.path.join(d, hname))
    rc, out = run_make(d, env)
    return rc == 0 and os.stat(os.path.join(d, obj)).st_mtime_ns != m1


def gcc_lifecycle_roundtrip(hname, scratch, env):
    """reference without bfg9000 for the WHOLE life of a header dependency: a hand-written
    Makefile including the depfile gcc itself writes with -MMD -MP (gcc's own empty rules for
    vanished headers): build, no-op, modify -> recompile, remove header and #include -> rebuild"""
    d = os.path.join(scratch, 'gcclife')
    shutil.rmtree(d, ignore_errors=True)
    os.makedirs(d)
    with open(os.path.join(d, hname), 'w') as f:
        f.write('#define V 1\n')
    with open(os.path.join(d, 'main.c'), 'w') as f:
        f.write('#include "%s"\nint main(void){return V;}\n' % hname)
    with open(os.path.join(d, 'Makefile'), 'w') as f:
        f.write('main.o: main.c\n\tgcc -c main.c -MMD -MP -MF main.o.d -o main.o\n-include main.o.d\n')
    obj = os.path.join(d, 'main.o')
    rc, out = run_make(d, env)
    if rc != 0:
        return False
    m1 = os.stat(obj).st_mtime_ns
    rc, out = run_make(d, env)
    if rc != 0 or os.stat(obj).st_mtime_ns != m1:
        return False
    proj.modify(os.path.join(d, hname))
    rc, out = run_make(d, env)
    if rc != 0 or os.stat(obj).st_mtime_ns == m1:
        return False
    proj.tick()
    with open(os.path.join(d, 'main.c'), 'w') as f:
        f.write('int main(void){return 2;}\n')
    os.remove(os.path.join(d, hname))
    proj.tick()
    rc, out = run_make(d, env)
    return rc == 0


def header_feasible(backend, hname, scratch, env):
    """can the header name be carried at all: by #include "...", by a hand-written Makefile, by the
    depfile gcc itself writes (make backend); inside refninja's depfile dialect (ninja backend)"""
    if any(c in hname for c in '"\\\n') or hname.endswith(' '):
        return False
    if backend == 'ninja':
        return not any(c in hname for c in '?*[]%:|\t') and not hname.startswith('~')
    return slot_witness('prereq', 'S/' + hname, hname, scratch, env) is not None and \
        gcc_lifecycle_roundtrip(hname, scratch, env)


def run_header(root, backend, name):
    """a header with the name, included by a C file compiled by the REAL gcc: the depfile gcc
    writes and bfg9000-depfixer post-processes must name that file through its whole life"""
    hname = name + '.h'
    src, bld = os.path.join(root, 'src'), os.path.join(root, 'bld')
    shutil.rmtree(root, ignore_errors=True)
    try:
        bfg.write_tree(src, {hname: '#define V 1\n', 'main.c': '#include "%s"\nint main(void){return V;}\n' % hname,
                             'build.bfg': "executable('hp', ['main.c'])\n"})
    except OSError:
        return None
    stub = bfg.make_stubbin(os.path.join(root, 'bin'), names=[], extra=[])
    env = bfg.base_env(stub, extra={'CC': '/usr/bin/gcc'})
    r = bfg.configure(src, bld, backend, env)
    if r.rc != 0:
        return 'configure fails: ' + (r.err.strip().splitlines()[-1][:200] if r.err.strip() else '')
    obj = os.path.join(bld, 'hp.int', 'main.o')

    def build(targets=()):
        return bfg.build(backend, bld, list(targets), env, timeout=60)
    rc, out = build()
    if rc != 0 or not os.path.exists(obj):
        return 'build fails: ' + out[-250:]
    m1 = os.stat(obj).st_mtime_ns
    rc, out = build()
    if rc != 0 or os.stat(obj).st_mtime_ns != m1:
        return 'second build is not a no-op: ' + out[-200:]
    proj.modify(os.path.join(src, hname))
    rc, out = build()
    if rc != 0:
        return 'rebuild after modifying the header fails: ' + out[-250:]
    if os.stat(obj).st_mtime_ns == m1:
        return 'a change of the header is not noticed (object not recompiled)'
    # the header goes away together with its #include
    proj.tick()
    with open(os.path.join(src, 'main.c'), 'w') as f:
        f.write('int main(void){return 2;}\n')
    os.remove(os.path.join(src, hname))
    proj.tick()
    rc, out = build()
    if rc != 0:
        return 'build fails after the header and its #include were removed: ' + out[-250:]
    rc, out = build(['clean'])
    if rc != 0 or os.path.exists(obj):
        return 'clean fails or leaves the object: ' + out[-200:]
    return None


def run_install(root, backend, name):
    """a data file with the name, installed by the real doppel through the generated install rule
    and removed again by uninstall (the name only ever appears as a command argument)"""
    fname = name + '.dat'
    script = "install(generic_file(%r), directory=Path('dd', InstallRoot.datadir))\n" % fname
    pfx = os.path.join(root, 'pfx')
    try:
        pr = proj.Proj(root, backend, {fname: 'payload\n'}, script, args=['--prefix=' + pfx])
    except OSError:
        return None
    os.remove(os.path.join(pr.bin, 'doppel'))
    r0 = pr.configure()
    if r0.rc != 0:
        return 'configure fails: ' + (r0.err.strip().splitlines()[-1][:200] if r0.err.strip() else '')
    rc, out, recs = pr.run(['install'], timeout=30)
    want = os.path.join(pfx, 'share', 'dd', fname)
    got = sorted(os.path.join(b, f) for b, ds, fs in os.walk(pfx) for f in fs) if os.path.isdir(pfx) else []
    if rc != 0:
        return 'install fails: %s' % out[-200:]
    if got != [want]:
        return 'install created %r, expected exactly %r' % ([g.replace(root, '<root>') for g in got],
                                                           want.replace(root, '<root>'))
    if open(want).read() != 'payload\n':
        return 'installed file has the wrong content'
    rc, out, recs = pr.run(['uninstall'], timeout=30)
    left = sorted(os.path.join(b, f) for b, ds, fs in os.walk(pfx) for f in fs)
    if rc != 0 or left:
        return 'uninstall fails or leaves %r: %s' % ([g.replace(root, '<root>') for g in left], out[-150:])
    if sorted(os.listdir(pr.src)) != sorted(['build.bfg', fname]):
        return 'the source tree was changed: %r' % sorted(os.listdir(pr.src))
    return None


def _shard(arg):
    backend, namelist, do_find = arg
    root = os.path.join(core.worker_dir(), 'c04')
    shutil.rmtree(root, ignore_errors=True)
    os.makedirs(root)
    env = bfg.base_env()
    out = []
    for name in namelist:
        wit = make_witness(name, root, env) if backend == 'make' else None
        roles = [r for r in ROLES if feasible(backend, r, name, wit)]
        excluded = [r for r in ROLES if r not in roles]
        results = {}
        n = 0
        if roles:
            res = run_roles(os.path.join(root, 'p'), backend, name, roles)
            n += 1
            for r in roles:
                if res[r] is None:
                    results[r] = None
                elif len(roles) == 1:
                    results[r] = res[r]
                else:
                    # batching never decides: re-run the role alone
                    results[r] = run_roles(os.path.join(root, 'p'), backend, name, [r])[r]
                    n += 1
        if do_find:
            if feasible(backend, 'find', name, wit):
                results['find'] = run_find(os.path.join(root, 'p'), backend, name)
                n += 1
            else:
                excluded.append('find')
            results['install'] = run_install(os.path.join(root, 'p'), backend, name)
            n += 1
            if feasible(backend, 'csrcflat', name, wit):
                results['csrcflat'] = run_roles(os.path.join(root, 'p'), backend, name, ['csrcflat'])['csrcflat']
                n += 1
            else:
                excluded.append('csrcflat')
            if do_find == 'all' or len(name) >= 3:
                if header_feasible(backend, name + '.h', root, env):
                    results['header'] = run_header(os.path.join(root, 'p'), backend, name)
                    n += 1
                else:
                    excluded.append('header')
            if feasible(backend, 'findsrc', name, wit):
                results['findsrc'] = run_find(os.path.join(root, 'p'), backend, name, consume=True)
                n += 1
            else:
                excluded.append('findsrc')
        out.append((name, wit, results, excluded, n))
    shutil.rmtree(root, ignore_errors=True)
    return backend, out


def is_subseq(t, s):
    it = iter(s)
    return all(c in it for c in t)


def run(ctx):
    nl = names(ctx.thorough)
    shards = []
    for b in ('make', 'ninja'):
        for ch in core.chunks(core.seeded_order(nl, ctx.seed), max(4, len(nl) // (3 * core.NCPU))):
            shards.append((b, ch, 'all' if ctx.thorough else True))
    res = core.pmap(_shard, shards)
    evals = 0
    demanded = excluded = 0
    fails = {}
    excl_by = {}
    samples = []
    for backend, rows in res:
        for name, wit, results, exc, n in rows:
            evals += n
            excluded += len(exc)
            for r in exc:
                excl_by.setdefault('%s:%s' % (backend, r), []).append(name)
            for r, v in results.items():
                demanded += 1
                if v is not None:
                    fails.setdefault((backend, r), []).append((name, v))
            if len(samples) < 3 and wit and any('\\' in (e or '') for w_ in wit.values() for e in w_.values()):
                samples.append(dict(name=name, make_reference_encodings=wit))
    for (backend, role), fl in sorted(fails.items()):
        fl.sort(key=lambda t: (len(t[0]), t[0]))
        minimal = []
        for name, v in fl:
            # report only names whose special characters do not already contain a reported one's
            key = ''.join(c for c in name if not c.isalnum()) or name
            if any(is_subseq(m[2], key) for m in minimal):
                continue
            minimal.append((name, v, key))
        for name, v, key in minimal:
            ctx.violation('C04:%s:%s:%s' % (backend, role, json.dumps(name)),
                          '%s backend, role %s, name %r: %s (%d failing names contain these characters)'
                          % (backend, role, name, v,
                             sum(1 for f in fl if is_subseq(key, ''.join(c for c in f[0] if not c.isalnum())))),
                          case=dict(backend=backend, role=role, name=name), observed=v)
    if demanded < 500:
        raise core.HarnessError('vacuous C04 exploration')
    ctx.level = 'exploration'
    ctx.cov.update(
        evaluations=evals, distinct_nontrivial=len(nl),
        rule='%d names (shapes c, xc, cx, xcy for every printable ASCII character except / and \\, plus TAB%s) x roles '
             '%r x {make, ninja}; per (name, role): created at exactly the expected path, second build no-op, '
             'modification of the prerequisite re-makes exactly the consuming step, clean removes only the outputs; '
             'find role: adding a file to the walked directory regenerates. (name, role) pairs are demanded only when '
             'a hand-written reference Makefile (search over raw/backslash encodings per special character, run by the '
             'real make) can express the name in every slot the role uses; for Ninja when the name has no `|`. '
             'distinct = names' % (len(nl), '; all pairs of special characters xc1c2y' if ctx.thorough else '',
                                   ROLES + ['csrcflat', 'find', 'findsrc', 'install', 'header (real gcc + depfixer)']),
        samples=samples or [dict(name=nl[0])],
        exhaustive=True, demanded=demanded, excluded_infeasible=excluded,
        excluded_names={k: ''.join(sorted(set(''.join(c for c in n if not c.isalnum()) for n in v)))[:80]
                        for k, v in excl_by.items()},
        states=len(nl), transitions=evals, traces_validated_against_impl=evals)
    ctx.assumptions += [
        'a weak candidate list in the reference search loses completeness only (names wrongly excluded), never '
        'soundness', 'Ninja: refninja (Appendix A); names outside its depfile dialect are excluded from the find role',
        'real-gcc depfile role (header names through depfixer) is covered by C07']


def replay(rec):
    c = rec['case']
    root = os.path.join(core.worker_dir(), 'c04r')
    shutil.rmtree(root, ignore_errors=True)
    os.makedirs(root)
    if c['role'] == 'csrcflat':
        v = run_roles(os.path.join(root, 'p'), c['backend'], c['name'], ['csrcflat'])['csrcflat']
    elif c['role'] == 'header':
        v = run_header(os.path.join(root, 'p'), c['backend'], c['name'])
    elif c['role'] == 'install':
        v = run_install(os.path.join(root, 'p'), c['backend'], c['name'])
    elif c['role'] in ('find', 'findsrc'):
        v = run_find(os.path.join(root, 'p'), c['backend'], c['name'], consume=c['role'] == 'findsrc')
    else:
        v = run_roles(os.path.join(root, 'p'), c['backend'], c['name'], [c['role']])[c['role']]
    print(c, '->', v)
    return v is None
