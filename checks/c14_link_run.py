"""C14 — linked binaries build, run in place, and survive moving the build directory.

Shape B with the real toolchain (gcc, g++, ar, ld, make).  All library DAGs up to a bound:
n libraries + one executable; library kind in {static, shared, dual (library()), whole-archive};
every edge set in which a library declares only its DIRECT dependencies; output directories,
listing order of libs=, library modes (--enable/--disable-shared/static) and language mixes are
enumerated.  Every library function returns a constant plus its dependencies' values, a static
library may carry a requirement of its own that only the final link can satisfy (-lm); the
executable prints the sum.  Oracle: the build succeeds, every executable run from the build
directory with an empty environment prints the model's number, still does after the build
directory was renamed, and every linked ELF has only $ORIGIN-relative run paths and bare NEEDED
names for project libraries.
"""
import itertools
import json
import os
import re
import shutil
import subprocess

from kernel import core, bfg

KINDS = ['static', 'shared', 'dual', 'whole']
DIRSETS = {2: [('app', 'applib', 'ap'), ('', 'sub', 'a/b'), ('', '', ''), ('a/b', '', 'sub'), ('sub', 'a/b', ''), ('sub', 'sub', 'a/b')],
           1: [('', ''), ('sub', ''), ('', 'a/b'), ('sub', 'a/b'), ('lib', 'lib64'), ('a/bc', 'a/b')],
           3: [('', '', '', ''), ('x', 'xy', 'xyz', 'x/y'), ('a/b', 'c', '', 'sub')]}


def instances(n):
    """libs are numbered 1..n; lib i may depend on libs j > i; the exe on a non-empty subset"""
    libs = list(range(1, n + 1))
    pairs = [(i, j) for i in libs for j in libs if j > i]
    for kinds in itertools.product(KINDS, repeat=n):
        for emask in itertools.product((0, 1), repeat=len(pairs)):
            edges = [p for p, m in zip(pairs, emask) if m]
            for exedeps in itertools.chain.from_iterable(itertools.combinations(libs, k)
                                                         for k in range(1, n + 1)):
                # every library must be reachable from the executable
                reach = set(exedeps)
                ch = True
                while ch:
                    ch = False
                    for a, b in edges:
                        if a in reach and b not in reach:
                            reach.add(b)
                            ch = True
                if reach != set(libs):
                    continue
                for needm in itertools.product((0, 1, 2), repeat=n):
                    if sum(1 for x in needm if x) > 1:
                        continue
                    yield dict(n=n, kinds=kinds, edges=edges, exedeps=list(exedeps), needm=needm)


def expected_value(inst):
    memo = {}

    def val(i):
        if i not in memo:
            memo[i] = i * 10 + (4 if inst['needm'][i - 1] else 0) + \
                sum(val(j) for a, j in inst['edges'] if a == i)
        return memo[i]
    # every whole-archive library carries one object nothing references: it must be linked in all the same
    return 1000 + sum(val(j) for j in inst['exedeps']) + sum(1 for k in inst['kinds'] if k == 'whole')


def render(inst, idx, dirs, reverse_order, cxx):
    """-> (script lines, files) for one instance; names prefixed by i<idx>"""
    pre = 'i%d' % idx
    files, lines = {}, []
    n = inst['n']

    def decl(name):
        return 'int %s(void);' % name

    def libvar(i):
        return '%s_l%d' % (pre, i)
    for i in range(n, 0, -1):
        deps = [j for a, j in inst['edges'] if a == i]
        body = ''.join(decl('%s_f%d' % (pre, j)) + '\n' for j in deps)
        ext = 'c'
        cxxlib = cxx == 'lib' and i == 1
        if cxxlib:
            ext = 'cpp'
            body = 'extern "C" {\n' + body + decl('%s_f%d' % (pre, i)) + '\n}\n#include <string>\n'
        extra = ''
        if inst['needm'][i - 1] == 2:
            body = '#include <math.h>\n' + body
            extra = ' + (int)pow((double)vol, 2.0)'      # == 4, needs -lm at the final link
        elif inst['needm'][i - 1] in (1, 3):
            # needs a link OPTION wherever this object is linked: calls to X only resolve
            # (to __wrap_X) under -Wl,--wrap=X
            ec = 'extern "C" ' if cxxlib else ''
            body = ('%sint __wrap_%s_w%d(void) { return 4; }\n%sint %s_w%d(void);\n%s'
                    % (ec, pre, i, ec, pre, i, body))
            extra = ' + %s_w%d()' % (pre, i)
        fn = ('%sint %s_f%d(void) { volatile int vol = 2; %sreturn %d%s%s; }\n'
              % (body, pre, i, 'std::string s("x"); vol += (int)s.size() - 1; ' if cxxlib else '',
                 i * 10, ''.join(' + %s_f%d()' % (pre, j) for j in deps), extra))
        src = '%s/l%d.%s' % (pre, i, ext)
        files[src] = fn
        d = dirs[i]
        name = (pre + '/' + d + '/' if d else pre + '/') + 'L%d' % i
        dl = list(deps)
        if reverse_order:
            dl.reverse()
        libs = ', libs=[%s]' % ', '.join(libvar(j) for j in dl) if dl else ''
        kind = inst['kinds'][i - 1]
        lo = {0: '', 1: ", link_options=['-Wl,--wrap=%s_w%d']" % (pre, i),
              2: ", link_options=[opts.lib('m')]",
              # the same requirement spelt as an option word with a separate argument
              3: ", link_options=['-Xlinker', '--wrap=%s_w%d']" % (pre, i)}[inst['needm'][i - 1]]
        if kind == 'static':
            lines.append("%s = static_library(%r, [%r]%s%s)" % (libvar(i), name, src, libs, lo))
        elif kind == 'shared':
            lines.append("%s = shared_library(%r, [%r]%s%s)" % (libvar(i), name, src, libs, lo))
        elif kind == 'dual':
            lines.append("%s = library(%r, [%r]%s%s)" % (libvar(i), name, src, libs, lo))
        else:
            xsrc = '%s/l%dx.c' % (pre, i)
            files[xsrc] = 'int %s_x%d = 1;\n' % (pre, i)
            lines.append("%s = whole_archive(static_library(%r, [%r, %r]%s%s))" % (libvar(i), name, src, xsrc, libs, lo))
    deps = list(inst['exedeps'])
    if reverse_order:
        deps.reverse()
    ext = 'cpp' if cxx == 'exe' else 'c'
    whole = [i for i in range(1, n + 1) if inst['kinds'][i - 1] == 'whole']
    decls = ''.join(decl('%s_f%d' % (pre, j)) + '\n' for j in deps)
    decls += ''.join('extern int %s_x%d __attribute__((weak));\n' % (pre, i) for i in whole)
    if ext == 'cpp':
        decls = 'extern "C" {\n' + decls + '}\n'
    files['%s/main.%s' % (pre, ext)] = ('#include <stdio.h>\n%sint main(void) { printf("%%d\\n", 1000%s); return 0; }\n'
                                        % (decls, ''.join(' + %s_f%d()' % (pre, j) for j in deps) +
                                           ''.join(' + (&%s_x%d ? %s_x%d : 0)' % (pre, i, pre, i) for i in whole)))
    d = dirs[0]
    ename = (pre + '/' + d + '/' if d else pre + '/') + 'prog'
    lines.append("executable(%r, [%r], libs=[%s])" % (ename, '%s/main.%s' % (pre, ext),
                                                      ', '.join(libvar(j) for j in deps)))
    # a second consumer of the same libraries at another depth of the tree (its own run path)
    ename2 = pre + '/zz/deeper/prog2'
    lines.append("executable(%r, [%r], libs=[%s])" % (ename2, '%s/main.%s' % (pre, ext),
                                                      ', '.join(libvar(j) for j in deps)))
    return lines, files, (ename, ename2)


def check_elf(path, bld):
    out = subprocess.run(['readelf', '-d', path], stdout=subprocess.PIPE, stderr=subprocess.DEVNULL, text=True).stdout
    problems = []
    for m in re.finditer(r'\((RUNPATH|RPATH)\)\s+Library r(?:un)?path: \[(.*?)\]', out):
        for ent in m.group(2).split(':'):
            if ent and not ent.startswith('$ORIGIN'):
                problems.append('%s entry %r is not $ORIGIN-relative' % (m.group(1), ent))
    for m in re.finditer(r'\(NEEDED\)\s+Shared library: \[(.*?)\]', out):
        if '/' in m.group(1):
            problems.append('NEEDED %r is not a bare name' % m.group(1))
    for m in re.finditer(r'\(SONAME\)\s+Library soname: \[(.*?)\]', out):
        if '/' in m.group(1):
            problems.append('SONAME %r is not a bare name' % m.group(1))
    return problems


def _shard(arg):
    batch, mode_args, cxx = arg
    root = os.path.join(core.worker_dir(), 'c14')
    shutil.rmtree(root, ignore_errors=True)
    src, bld = os.path.join(root, 'src'), os.path.join(root, 'build dir')
    lines, files, exes = [], {}, []
    for idx, (inst, dirs, rev) in enumerate(batch):
        l, f, e = render(inst, idx, dirs, rev, cxx)
        lines += l
        files.update(f)
        exes.append(e)
    files['build.bfg'] = '\n'.join(lines) + '\n'
    bfg.write_tree(src, files)
    env = bfg.base_env()
    res = []      # (instance description, failure or None)
    has_dual = any('dual' in inst['kinds'] for inst, d, r in batch)
    both_off = '--disable-shared' in mode_args and '--enable-static' not in mode_args
    r = bfg.configure(src, bld, 'make', env, args=mode_args)

    def desc(inst, dirs, rev):
        return dict(kinds=inst['kinds'], edges=inst['edges'], exe=inst['exedeps'], needs_m=inst['needm'],
                    dirs=dirs, reversed=rev, mode=mode_args, cxx=cxx)
    if r.rc != 0:
        if both_off and has_dual:
            # documented: library() cannot be created when both modes are disabled
            return [(desc(*b), None, 'rejected') for b in batch]
        return [(desc(*b), 'configure fails: ' + r.err.strip()[-300:], 'fail') for b in batch]
    if both_off and has_dual:
        return [(desc(*b), 'configure accepts library() with both library modes disabled', 'fail') for b in batch]
    rc, out = bfg.run_tool(['make', '-k', '-j2', 'all'], bld, env, timeout=300)
    runs = {}
    for phase in ('in-place', 'moved'):
        if phase == 'moved':
            moved = os.path.join(root, 'moved elsewhere')
            os.rename(bld, moved)
            bld_now = moved
        else:
            bld_now = bld
        for e in [x for pair in exes for x in pair]:
            p = os.path.join(bld_now, e)
            if not os.path.exists(p):
                runs[(e, phase)] = 'not built'
                continue
            pr = subprocess.run([p], stdout=subprocess.PIPE, stderr=subprocess.PIPE, text=True, env={},
                                cwd='/')
            runs[(e, phase)] = pr.stdout.strip() if pr.returncode == 0 else \
                'exit %d: %s' % (pr.returncode, pr.stderr.strip()[-150:])
    for (inst, dirs, rev), pair in zip(batch, exes):
        want = str(expected_value(inst))
        msg = None
        e = pair[0]
        for cand in pair:
            if runs[(cand, 'in-place')] != want or runs[(cand, 'moved')] != want:
                e = cand
                break
        if runs[(e, 'in-place')] == 'not built':
            # find this instance's error in the make output
            pre = e.split('/')[0]
            errs = [l for l in out.splitlines() if pre + '/' in l and ('rror' in l or 'undefined' in l)]
            msg = 'build fails: ' + ' | '.join(errs[-3:])[:400]
        elif runs[(e, 'in-place')] != want:
            msg = '%s run in place: printed %r, expected %s' % (e.split('/')[-1], runs[(e, 'in-place')], want)
        elif runs[(e, 'moved')] != want:
            msg = '%s after moving the build directory: %r, expected %s' % (e.split('/')[-1], runs[(e, 'moved')], want)
        else:
            d = os.path.join(moved, e.split('/')[0])
            probs = []
            for b, ds, fs in os.walk(d):
                for f in fs:
                    if f in ('prog', 'prog2') or '.so' in f:
                        probs += ['%s: %s' % (f, p) for p in check_elf(os.path.join(b, f), moved)]
            if probs:
                msg = '; '.join(probs[:3])
        res.append((desc(inst, dirs, rev), msg, 'ok' if msg is None else 'fail'))
    shutil.rmtree(root, ignore_errors=True)
    return res


def run(ctx):
    th = ctx.thorough
    modes = [[], ['--enable-static'], ['--disable-shared', '--enable-static'], ['--disable-shared']]
    cases = []
    for n in ((1, 2, 3) if th else (1, 2)):
        insts = list(instances(n))
        if n == 3:
            insts = [i for i in insts if sum(i['needm']) == 0 and 'whole' not in i['kinds'][1:]]
        dirsets = DIRSETS[n] if (th or n == 1) else DIRSETS[n][:2]
        if n == 2 and not th:
            # quick: requirements only on static / whole-archive libraries (where forwarding matters)
            insts = [i for i in insts if all(not m or k in ('static', 'whole')
                                             for m, k in zip(i['needm'], i['kinds']))]
        for inst in insts:
            for dirs in dirsets:
                for rev in ((False, True) if len(inst['exedeps']) > 1 or len(inst['edges']) > 1 else (False,)):
                    cases.append((inst, dirs, rev))
    # two static libraries on one link, EACH with a two-word requirement (the option word repeats)
    for edges in ([], [(1, 2)]):
        for rev in (False, True):
            cases.append((dict(n=2, kinds=('static', 'static'), edges=edges, exedeps=[1, 2], needm=(3, 3)),
                          DIRSETS[2][1], rev))
    if not th:
        # quick: of the three-library DAGs only the chains (1 -> 2 -> 3, with and without the shortcut
        # 1 -> 3) over static / shared libraries, every listing of the executable's libs in both orders
        for inst in instances(3):
            if sum(inst['needm']) or any(k not in ('static', 'shared') for k in inst['kinds']):
                continue
            if inst['edges'] not in ([(1, 2), (2, 3)], [(1, 2), (1, 3), (2, 3)]):
                continue
            for rev in ((False, True) if len(inst['exedeps']) > 1 else (False,)):
                cases.append((inst, DIRSETS[3][0], rev))
    configs = []
    for m in modes:
        for cxx in ((None, 'exe', 'lib') if th else (None, 'exe')):
            if not th and m and cxx:
                continue
            configs.append((m, cxx))
    shards = []
    for m, cxx in configs:
        both_off = '--disable-shared' in m and '--enable-static' not in m
        cs = cases
        if both_off:
            # split so that the documented rejection only concerns batches containing library()
            dual = [c for c in cs if 'dual' in c[0]['kinds']]
            nodual = [c for c in cs if 'dual' not in c[0]['kinds']]
            for ch in core.chunks(dual, 40) + core.chunks(nodual, 20):
                shards.append((ch, m, cxx))
        else:
            for ch in core.chunks(cs, 30):
                shards.append((ch, m, cxx))
    res = core.pmap(_shard, core.seeded_order(shards, ctx.seed))
    n = 0
    fails = []
    outcomes = {}
    for sh in res:
        for d, msg, tag in sh:
            n += 1
            outcomes[tag] = outcomes.get(tag, 0) + 1
            if msg is not None:
                fails.append((len(d['kinds']), len(d['edges']), json.dumps(d, sort_keys=True), msg))
    fails.sort()
    seen = set()
    for _, _, dj, msg in fails:
        d = json.loads(dj)
        sig = (tuple(sorted(set(d['kinds']))), re.sub(r'i\d+', 'i', msg)[:60])
        if sig in seen:
            continue
        seen.add(sig)
        ctx.violation('C14:%s' % dj, 'project %s: %s' % (dj, msg), case=d, observed=msg)
    if n < 300 or outcomes.get('ok', 0) < 100:
        raise core.HarnessError('vacuous C14 exploration %r' % outcomes)
    ctx.level = 'exploration'
    ctx.cov.update(
        evaluations=n, distinct_nontrivial=outcomes.get('ok', 0),
        rule='all library DAGs with n <= %d libraries (kind in static/shared/dual/whole-archive per library, every edge '
             'set of direct dependencies with all libraries reachable, executable depending on every non-empty subset, at '
             'most one static requirement -lm) x output-directory assignments x libs= order x library modes %r x '
             'language mixes (all C, C++ executable%s); built with the real gcc/g++/ar/ld through make, executables run '
             'with an empty environment from / before and after renaming the build directory (its name contains a '
             'space), readelf -d of every linked ELF. distinct = projects that built and ran correctly'
             % (3 if th else 2, modes, ', C++ library' if th else ''),
        samples=[json.loads(fails[0][2])] if fails else [dict(kinds=['static', 'shared'], edges=[[1, 2]], exe=[1])],
        exhaustive=True, outcomes=outcomes,
        states=n, transitions=n, traces_validated_against_impl=n)
    ctx.assumptions += ['forwarded packages cannot be exercised: package() needs mopack, broken in this image',
                        'n = 3 is restricted to DAGs without -lm requirements and with whole-archive only as the first '
                        'library (stated bound)']


def replay(rec):
    d = rec['case']
    inst = dict(n=len(d['kinds']), kinds=tuple(d['kinds']), edges=[tuple(e) for e in d['edges']],
                exedeps=d['exe'], needm=tuple(d['needs_m']))
    r = _shard(([(inst, tuple(d['dirs']), d['reversed'])], d['mode'], d['cxx']))
    print(r)
    return all(m is None for _, m, _ in r)
