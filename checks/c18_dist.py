"""C18 — the source distribution contains everything the build reads from srcdir.

Shape B.  Programs are all subsets (<= 2 quick / <= 3 thorough) of templates over every builtin
that creates file objects, each with and without dist=False, placed in the root script or in a
submodule (depth 1-2), with an options.bfg.  The real dist target (make / refninja + the real
doppel) is run and the archive listed.  Required members: every srcdir file opened during
configuration (sys.addaudithook on the in-process configure), every srcdir file any build step
reads (recorder log of a full build with the stub toolchain, incl. headers), and what the script
declares for distribution (find results incl. extra / not_now ones, extra_dist); files marked
dist=False must be absent; nothing may come from outside srcdir.  The archive is then unpacked in
place of the source tree and configured again: the generated build files must be equivalent.
"""
import itertools
import json
import os
import re
import shutil
import subprocess
import sys
import tarfile
import zipfile

from kernel import core, bfg, proj

# template: name -> function(prefix dir, dist flag) -> (lines, files, dist_expected, nodist)
#   dist_expected: srcdir-relative files the script declares for distribution
#   nodist: files explicitly marked dist=False


def T(lines, files, dist, nodist=()):
    return lines, files, list(dist), list(nodist)


def d(flag):
    return '' if flag else ', dist=False'


def tmpl_exe(p, f, i):
    return T(["executable('e%d', [source_file('s%d.c'%s)])" % (i, i, d(f))], {'s%d.c' % i: 'int main(){}\n'},
             ['s%d.c' % i] if f else [], [] if f else ['s%d.c' % i])


def tmpl_header(p, f, i):
    return T(["object_file('o%d', file='t%d.c', includes=[header_file('inc%d/h.h'%s)])" % (i, i, i, d(f))],
             {'t%d.c' % i: '#include "h.h"\nint x;\n', 'inc%d/h.h' % i: '#define H\n'},
             ['t%d.c' % i] + (['inc%d/h.h' % i] if f else []), [] if f else ['inc%d/h.h' % i])


def tmpl_hdrdir(p, f, i):
    return T(["hd%d = header_directory('hd%d', include='**/*.h'%s)" % (i, i, d(f)),
              "object_file('od%d', file='u%d.c', includes=[hd%d])" % (i, i, i)],
             {'u%d.c' % i: '#include "a.h"\nint y;\n', 'hd%d/a.h' % i: '#define A\n', 'hd%d/n/b.h' % i: '#define B\n',
              'hd%d/n/skip.txt' % i: 'no\n'},
             ['u%d.c' % i] + (['hd%d/a.h' % i, 'hd%d/n/b.h' % i] if f else []),
             [] if f else ['hd%d/a.h' % i, 'hd%d/n/b.h' % i])


def tmpl_find(p, f, i):
    return T(["fs%d = find_files('fd%d/*.c', extra='*.txt'%s)" % (i, i, d(f)),
              "static_library('fl%d', fs%d)" % (i, i)],
             {'fd%d/a.c' % i: 'int a;\n', 'fd%d/b.c' % i: 'int b;\n', 'fd%d/notes.txt' % i: 'n\n',
              'fd%d/other.md' % i: 'o\n'},
             ['fd%d/a.c' % i, 'fd%d/b.c' % i, 'fd%d/notes.txt' % i] if f else [],
             [] if f else ['fd%d/a.c' % i, 'fd%d/b.c' % i, 'fd%d/notes.txt' % i])


def tmpl_find_platform(p, f, i):
    return T(["fp%d = find_files('fp%d/**/*.c', filter=filter_by_platform%s)" % (i, i, d(f)),
              "static_library('fpl%d', fp%d)" % (i, i)],
             {'fp%d/a.c' % i: 'int a;\n', 'fp%d/windows/w.c' % i: 'int w;\n', 'fp%d/linux/l.c' % i: 'int l;\n'},
             ['fp%d/a.c' % i, 'fp%d/windows/w.c' % i, 'fp%d/linux/l.c' % i] if f else [],
             [] if f else ['fp%d/a.c' % i, 'fp%d/windows/w.c' % i, 'fp%d/linux/l.c' % i])


def tmpl_find_nocache(p, f, i):
    return T(["fn%d = find_files('fn%d/*.c', extra='*.h', cache=False%s)" % (i, i, d(f)),
              "static_library('fnl%d', fn%d)" % (i, i),
              "hn%d = header_directory('hn%d', include='*.h', extra='*.inc', cache=False%s)" % (i, i, d(f))],
             {'fn%d/a.c' % i: 'int a;\n', 'fn%d/cfg.h' % i: '#define C\n', 'hn%d/p.h' % i: '#define P\n',
              'hn%d/q.inc' % i: 'q\n'},
             ['fn%d/a.c' % i, 'fn%d/cfg.h' % i, 'hn%d/p.h' % i, 'hn%d/q.inc' % i] if f else [],
             [] if f else ['fn%d/a.c' % i, 'fn%d/cfg.h' % i, 'hn%d/p.h' % i, 'hn%d/q.inc' % i])


def tmpl_extra_dist(p, f, i):
    return T(["extra_dist(files=['README%d'], dirs=['docs%d'])" % (i, i)],
             {'README%d' % i: 'r\n', 'docs%d/a.md' % i: 'a\n', 'docs%d/sub/b.md' % i: 'b\n'},
             # (whether extra_dist(dirs=) is recursive is not documented: nested files are a don't-care)
             ['README%d' % i, 'docs%d/a.md' % i])


def tmpl_man(p, f, i):
    return T(["install(man_page('man%d/tool.1', compress=False%s))" % (i, d(f))], {'man%d/tool.1' % i: '.TH\n'},
             ['man%d/tool.1' % i] if f else [], [] if f else ['man%d/tool.1' % i])


def tmpl_copy(p, f, i):
    return T(["default(copy_file('out%d.cfg', generic_file('cfg%d.in'%s)))" % (i, i, d(f))], {'cfg%d.in' % i: 'c\n'},
             ['cfg%d.in' % i] if f else [], [] if f else ['cfg%d.in' % i])


def tmpl_step(p, f, i):
    return T(["default(build_step('g%d.out', cmd=['gen', build_step.output, '--', generic_file('in%d.dat'%s)]))"
              % (i, i, d(f))], {'in%d.dat' % i: 'd\n'},
             ['in%d.dat' % i] if f else [], [] if f else ['in%d.dat' % i])


def tmpl_step_files(p, f, i):
    return T(["default(build_step('gf%d.out', cmd=['gen', build_step.output, '--', build_step.input], "
              "files=[generic_file('inf%d.dat'%s)]))" % (i, i, d(f))], {'inf%d.dat' % i: 'd\n'},
             ['inf%d.dat' % i] if f else [], [] if f else ['inf%d.dat' % i])


def tmpl_extra_deps(p, f, i):
    return T(["executable('x%d', ['xs%d.c'], extra_deps=[generic_file('dep%d.txt'%s)])" % (i, i, i, d(f))],
             {'xs%d.c' % i: 'int main(){}\n', 'dep%d.txt' % i: 'd\n'},
             ['xs%d.c' % i] + (['dep%d.txt' % i] if f else []), [] if f else ['dep%d.txt' % i])


def tmpl_extra_deps_plain(p, f, i):
    """extra_deps given as Path objects, no file-object builtin involved (plain strings are resolved
    against the top source directory even inside submodules: C19's known finding)"""
    return T(["executable('xp%d', [%s], extra_deps=[relpath('depstr%d.txt'), relpath('deppath%d.map')], "
              "extra_compile_deps=[relpath('cdep%d.inc')])"
              % (i, "source_file('xq%d.c'%s)" % (i, d(f)), i, i, i)],
             {'xq%d.c' % i: 'int main(){}\n', 'depstr%d.txt' % i: 'd\n', 'deppath%d.map' % i: 'm\n',
              'cdep%d.inc' % i: 'c\n'},
             (['xq%d.c' % i] if f else []) + ['depstr%d.txt' % i, 'deppath%d.map' % i, 'cdep%d.inc' % i],
             [] if f else ['xq%d.c' % i])


def tmpl_nodist_dir_then_file(p, f, i):
    """a directory enumerated with dist=False, one of whose files is then used (and so registered
    again) by an ordinary builtin: that file is read by the build and must be distributed"""
    return T(["nd%d = directory('nd%d', include='*', dist=False)" % (i, i),
              "default(copy_file('nd%d_copy.txt', generic_file('nd%d/keep.txt'%s)))" % (i, i, d(f))],
             {'nd%d/keep.txt' % i: 'k\n', 'nd%d/notes.txt' % i: 'n\n'},
             ['nd%d/keep.txt' % i] if f else [], ['nd%d/notes.txt' % i] + ([] if f else ['nd%d/keep.txt' % i]))


def tmpl_prebuilt(p, f, i):
    return T(["pre%d = static_library('pre%d/libx.a'%s)" % (i, i, d(f)),
              "executable('pb%d', ['ps%d.c'], libs=[pre%d])" % (i, i, i)],
             {'pre%d/libx.a' % i: 'archive\n', 'ps%d.c' % i: 'int main(){}\n'},
             ['ps%d.c' % i] + (['pre%d/libx.a' % i] if f else []), [] if f else ['pre%d/libx.a' % i])


def tmpl_directory(p, f, i):
    return T(["dir%d = directory('dd%d', include='*'%s)" % (i, i, d(f)),
              "default(build_step('gd%d.out', cmd=['gen', build_step.output, '--', 'x']))" % i],
             {'dd%d/one' % i: '1\n', 'dd%d/two' % i: '2\n'},
             ['dd%d/one' % i, 'dd%d/two' % i] if f else [], [] if f else ['dd%d/one' % i, 'dd%d/two' % i])


def tmpl_plain_strings(p, f, i):
    """sources named by plain strings, one of them of a language that is only transpiled (lex):
    bfg9000 wraps it in generated_source() itself"""
    if not f:      # the dist=False variant marks the C source only
        return T(["executable('px%d', files=[source_file('pm%d.c', dist=False), 'scan%d.l'])" % (i, i, i)],
                 {'pm%d.c' % i: 'int main(){}\n', 'scan%d.l' % i: '%%\n'}, ['scan%d.l' % i], ['pm%d.c' % i])
    return T(["executable('px%d', files=['pm%d.c', 'scan%d.l'])" % (i, i, i)],
             {'pm%d.c' % i: 'int main(){}\n', 'scan%d.l' % i: '%%\n'}, ['pm%d.c' % i, 'scan%d.l' % i])


TEMPLATES = [('exe', tmpl_exe), ('plain-string-sources', tmpl_plain_strings), ('header', tmpl_header), ('header_directory', tmpl_hdrdir), ('find_files', tmpl_find),
             ('find_platform', tmpl_find_platform), ('find_nocache', tmpl_find_nocache),
             ('extra_dist', tmpl_extra_dist), ('man_page', tmpl_man),
             ('copy_file', tmpl_copy), ('build_step-cmd-file', tmpl_step), ('build_step-files', tmpl_step_files),
             ('extra_deps', tmpl_extra_deps), ('extra_deps-plain', tmpl_extra_deps_plain),
             ('nodist-directory-then-file', tmpl_nodist_dir_then_file), ('prebuilt_library', tmpl_prebuilt), ('directory', tmpl_directory)]
TD = dict(TEMPLATES)
PLACES = ['', 'sub', 'sub/deep']

_audit = {'on': False, 'paths': []}


def _hook(event, args):
    if _audit['on'] and event == 'open' and args and isinstance(args[0], str):
        _audit['paths'].append(args[0])


_hooked = False


def audited_configure(pr):
    global _hooked
    if not _hooked:
        sys.addaudithook(_hook)
        _hooked = True
    _audit['paths'] = []
    _audit['on'] = True
    try:
        r = pr.configure()
    finally:
        _audit['on'] = False
    opened = set()
    for p in _audit['paths']:
        ap = os.path.normpath(os.path.join(pr.src, p)) if not os.path.isabs(p) else os.path.normpath(p)
        if ap.startswith(pr.src + '/') and os.path.isfile(ap):
            opened.add(os.path.relpath(ap, pr.src))
    return r, opened


def build_program(items):
    """items: list of (template name, dist flag, place). -> (files, expected dist, nodist)"""
    files, dist, nodist = {}, set(), set()
    scripts = {'': [], 'sub': [], 'sub/deep': []}
    for idx, (name, flag, place) in enumerate(items):
        lines, f, de, nd = TD[name](place, flag, idx)
        scripts[place] += lines
        for k, v in f.items():
            files[os.path.join(place, k)] = v
        dist |= {os.path.join(place, x) for x in de}
        nodist |= {os.path.join(place, x) for x in nd}
    used = [p for p in PLACES if scripts[p]]
    need_sub = any(p.startswith('sub') for p in used)
    need_deep = 'sub/deep' in used
    if need_deep:
        scripts['sub'].append("submodule('deep')")
    if need_sub:
        scripts[''].append("submodule('sub')")
    scripts[''].insert(0, "project('dproj', version='1.0')")
    scripts[''].append("command('show', cmd=['echo', argv.name])")
    files['build.bfg'] = '\n'.join(scripts['']) + '\n'
    files['options.bfg'] = "argument('name', default='n')\n"
    dist |= {'build.bfg', 'options.bfg'}
    if need_sub:
        files['sub/build.bfg'] = '\n'.join(scripts['sub']) + '\n'
        dist.add('sub/build.bfg')
    if need_deep:
        files['sub/deep/build.bfg'] = '\n'.join(scripts['sub/deep']) + '\n'
        dist.add('sub/deep/build.bfg')
    return files, dist, nodist


def canon_build_file(text, src):
    """order-insensitive rendering: tokens sorted within a line, lines sorted"""
    out = []
    for l in text.replace(src, '<src>').splitlines():
        out.append(' '.join(sorted(re.split(r'[\s,()]+', l))))
    return sorted(out)


def canon_cdb(path, src):
    out = []
    for e in json.load(open(path)):
        e = dict(e)
        if 'arguments' in e:
            if e.get('file') in e['arguments'] and not e['file'].startswith(src):
                e['file'] = '<first input>'      # which input comes first is an ordering matter
            e['arguments'] = sorted(e['arguments'])
        if 'command' in e:
            e['command'] = ' '.join(sorted(e['command'].split()))
        out.append(json.dumps(e, sort_keys=True).replace(src, '<src>'))
    return sorted(out)


def _shard(arg):
    cases = arg
    root = os.path.join(core.worker_dir(), 'c18')
    res = []
    for backend, items in cases:
        shutil.rmtree(root, ignore_errors=True)
        files, dist, nodist = build_program(items)
        pr = proj.Proj(os.path.join(root, 'p'), backend, files, files['build.bfg'], extra_env={'LEX': 'rec'})
        os.remove(os.path.join(pr.bin, 'doppel'))
        label = dict(backend=backend, items=[list(i) for i in items])
        r, opened = audited_configure(pr)
        if r.rc != 0:
            res.append((label, 'configure fails: ' + r.err.strip()[-300:]))
            continue
        bf = 'Makefile' if backend == 'make' else 'build.ninja'
        orig_build = canon_build_file(open(os.path.join(pr.bld, bf)).read(), pr.src)
        orig_cdb = canon_cdb(os.path.join(pr.bld, 'compile_commands.json'), pr.src)
        problems = []
        rc, out, recs = pr.run(['dist-gzip'])
        arch = os.path.join(pr.bld, 'dproj-1.0.tar.gz')
        if rc != 0 or not os.path.exists(arch):
            res.append((label, 'dist-gzip fails: ' + out[-300:]))
            continue
        with tarfile.open(arch) as t:
            names = t.getnames()
            members = set()
            for n in names:
                parts = n.split('/', 1)
                if parts[0] != 'dproj-1.0' or '..' in n.split('/') or n.startswith('/'):
                    problems.append('archive member outside the project prefix: %r' % n)
                elif len(parts) > 1 and t.getmember(n).isfile():
                    members.add(parts[1])
        # every other archive format, and the `dist` alias, must hold the same members
        for goal, an in (('dist-bzip2', 'dproj-1.0.tar.bz2'), ('dist-zip', 'dproj-1.0.zip'),
                         ('dist', 'dproj-1.0.tar.gz')):
            ap = os.path.join(pr.bld, an)
            if os.path.exists(ap):
                os.remove(ap)
            rc, out, recs = pr.run([goal])
            if rc != 0 or not os.path.exists(ap):
                problems.append('%s fails: %s' % (goal, out[-200:]))
                continue
            if an.endswith('.zip'):
                with zipfile.ZipFile(ap) as z:
                    other = {n.split('/', 1)[1] for n in z.namelist() if '/' in n and not n.endswith('/')}
            else:
                with tarfile.open(ap) as t:
                    other = {m.name.split('/', 1)[1] for m in t.getmembers() if m.isfile() and '/' in m.name}
            if other != members:
                problems.append('%s holds different members than dist-gzip: missing %r, additional %r'
                                % (goal, sorted(members - other)[:5], sorted(other - members)[:5]))
        # what the build reads from srcdir (full build of everything that has a rule)
        rc, out, brecs = pr.run(['all'], keep_going=True)
        read = set()
        for s in proj.steps_of(brecs):
            for i in s['inputs']:
                if i.startswith(pr.src + '/'):
                    read.add(os.path.relpath(i, pr.src))
        required = (opened | read | dist) - nodist
        missing = sorted(required - members)
        if missing:
            why = {m: [k for k, sset in (('opened by configure', opened), ('read by a build step', read),
                                         ('declared by the script', dist)) if m in sset] for m in missing}
            problems.append('missing from the archive: %r' % why)
        present = sorted(nodist & members)
        if present:
            problems.append('marked dist=False but distributed: %r' % present)
        gen = sorted(m for m in members if m.endswith(('.o', '.out', '.a.d')) or m.startswith('bld/'))
        if gen:
            problems.append('generated files in the archive: %r' % gen)
        if not problems and not nodist:
            # unpack in place of the source tree and configure again (files marked dist=False are
            # simply missing there, which legitimately changes what is generated: not compared)
            aside = pr.src + '.orig'
            os.rename(pr.src, aside)
            with tarfile.open(arch) as t:
                t.extractall(os.path.join(root, 'unp'))
            os.rename(os.path.join(root, 'unp', 'dproj-1.0'), pr.src)
            shutil.rmtree(pr.bld)
            r2 = pr.configure()
            if r2.rc != 0:
                if not nodist:
                    problems.append('the unpacked archive does not configure: ' + r2.err.strip()[-250:])
            else:
                new_build = canon_build_file(open(os.path.join(pr.bld, bf)).read(), pr.src)
                new_cdb = canon_cdb(os.path.join(pr.bld, 'compile_commands.json'), pr.src)
                if new_build != orig_build:
                    a, b = set(orig_build), set(new_build)
                    problems.append('the unpacked archive configures to a different build: only original %r, '
                                    'only unpacked %r' % (sorted(a - b)[:3], sorted(b - a)[:3]))
                elif new_cdb != orig_cdb:
                    problems.append('compile_commands.json differs for the unpacked archive')
        res.append((label, '; '.join(problems) if problems else None))
    shutil.rmtree(root, ignore_errors=True)
    return res


def run(ctx):
    th = ctx.thorough
    singles = []
    for name, _ in TEMPLATES:
        for flag in (True, False):
            if name == 'extra_dist' and not flag:
                continue
            for place in PLACES:
                singles.append((name, flag, place))
    programs = [(s,) for s in singles]
    base = [s for s in singles if s[2] in ('', 'sub')]
    pairs = list(itertools.combinations(base, 2))
    if not th:
        pairs = [p for p in pairs if p[0][0] != p[1][0] and (p[0][1] != p[1][1] or p[0][2] != p[1][2])][::3]
    programs += pairs
    if th:
        root_only = [s for s in singles if s[2] == '' and s[1]]
        programs += list(itertools.combinations(root_only, 3))
    cases = [(b, p) for p in programs for b in ('make', 'ninja')]
    cases = core.seeded_order(cases, ctx.seed)
    res = core.pmap(_shard, core.chunks(cases, max(4, len(cases) // (6 * core.NCPU))))
    n = 0
    fails = []
    for sh in res:
        for label, msg in sh:
            n += 1
            if msg:
                fails.append((len(label['items']), json.dumps(label, sort_keys=True), msg))
    fails.sort()
    seen = set()
    for _, lj, msg in fails:
        l = json.loads(lj)
        sig = (l['backend'], l['items'][-1][0], re.sub(r'\d+', 'N', msg)[:50])
        if sig in seen:
            continue
        seen.add(sig)
        ctx.violation('C18:' + lj, 'program %s: %s' % (lj, msg), case=l, observed=msg)
    if n < 200:
        raise core.HarnessError('vacuous C18 exploration')
    ctx.level = 'exploration'
    ctx.cov.update(
        evaluations=n, distinct_nontrivial=len(programs),
        rule='programs = all single templates over %r x {dist, dist=False} x placement {root, submodule, nested '
             'submodule} and %s, each with an options.bfg, both backends; the real dist-gzip target (real doppel) is '
             'run and the archive listed; required = files opened by configure (audit hook) + srcdir files read by any '
             'build step (recorder log incl. headers) + files the script declares (find results incl. extra / not_now, '
             'extra_dist) - dist=False files, which must be absent; then the archive is unpacked in place of the source '
             'tree and configured again: build file and compile_commands.json equal up to ordering. distinct = programs'
             % ([t for t, _ in TEMPLATES], 'all pairs, all root triples' if th else 'a third of the mixed pairs'),
        samples=[dict(items=[list(i) for i in programs[len(programs) // 2]])],
        exhaustive=True, programs=len(programs), states=n, transitions=3 * n, traces_validated_against_impl=n)
    ctx.assumptions += ['equivalence of the re-configured build is judged up to ordering (find_files keeps os.listdir '
                        'order, which an unpacked tree need not reproduce)',
                        'precompiled_header and module_def_file are not among the templates']


def replay(rec):
    l = rec['case']
    r = _shard([(l['backend'], tuple(tuple(i) for i in l['items']))])
    print(r)
    return r[0][1] is None
