"""C17 — generated pkg-config files give consumers the declared flags and requirements.

(a) specifier algebra, exhaustive with a small-model argument: all sets of <= 2 (quick) / 3
    (thorough) specifiers over 6 operators x 3 versions, every split across requires /
    requires_private (and the Conflicts list), judged by the REAL pkg-config against dummy
    dependency .pc files of every version of a grid that contains every endpoint and one point of
    every open interval.
(b) flag fidelity: package descriptions with include directories / options containing spaces,
    quotes, $, #, \\; libraries (shared, static with transitive static dependencies, dual);
    public and private link options; read back with the real pkg-config in installed and
    -uninstalled form, from the build directory and a moved build directory; a consumer is
    compiled and linked with those flags by the real gcc.
"""
import itertools
import json
import os
import shutil
import subprocess

from kernel import core, bfg, proj

OPS = ['>=', '>', '<=', '<', '==', '!=']
VERS = ['1.0', '1.5', '2.0']
GRID = ['0.5', '1.0', '1.2', '1.5', '1.7', '2.0', '2.5']


def vt(v):
    return tuple(int(x) for x in v.split('.'))


def accepts(spec, v):
    op, sv = spec
    a, b = vt(v), vt(sv)
    return {'>=': a >= b, '>': a > b, '<=': a <= b, '<': a < b, '==': a == b, '!=': a != b}[op]


def spec_str(specs):
    return ','.join(op + v for op, v in specs)


def pc_env(paths):
    return {'PKG_CONFIG_PATH': ':'.join(paths), 'PKG_CONFIG_LIBDIR': '/nonexistent', 'PATH': '/usr/bin:/bin',
            'PKG_CONFIG_ALLOW_SYSTEM_CFLAGS': '1', 'PKG_CONFIG_ALLOW_SYSTEM_LIBS': '1'}


def write_dep(d, name, version):
    os.makedirs(d, exist_ok=True)
    with open(os.path.join(d, name + '.pc'), 'w') as f:
        f.write('Name: %s\nDescription: dummy\nVersion: %s\n' % (name, version))


def _spec_shard(arg):
    cases = arg
    root = os.path.join(core.worker_dir(), 'c17a')
    shutil.rmtree(root, ignore_errors=True)
    src, bld, deps = os.path.join(root, 'src'), os.path.join(root, 'bld'), os.path.join(root, 'deps')
    os.makedirs(src)
    write_dep(deps, 'dep', '1.5')
    write_dep(deps, 'base', '1.0')
    stub = bfg.make_stubbin(os.path.join(root, 'bin'), extra=proj.STUB_EXTRA)
    env = bfg.base_env(stub, extra={'PKG_CONFIG_PATH': deps})
    res = []
    for kind, pub, priv in cases:
        allspecs = list(pub) + list(priv)
        sat = [v for v in GRID if all(accepts(s, v) for s in allspecs)]
        if kind == 'requires':
            args = []
            if pub:
                args.append("requires=[('dep', %r)]" % spec_str(pub))
            if priv:
                args.append("requires_private=[('dep', %r)]" % spec_str(priv))
        else:
            args = ["requires=['dep']", "conflicts=[('dep', %r)]" % spec_str(pub)]
        script = "pkg_config('mypkg', version='1.0', auto_fill=True, %s)\n" % ', '.join(args)
        with open(os.path.join(src, 'build.bfg'), 'w') as f:
            f.write(script)
        shutil.rmtree(bld, ignore_errors=True)
        r = bfg.configure(src, bld, 'make', env)
        label = dict(kind=kind, public=spec_str(pub), private=spec_str(priv))
        if r.rc != 0:
            if not sat or kind == 'conflicts':
                res.append((label, None, 'rejected-unsatisfiable' if not sat else 'rejected'))
            else:
                res.append((label, None, 'rejected-satisfiable'))
            continue
        if not sat and kind == 'requires':
            res.append((label, 'configure accepts the unsatisfiable specifier set %s' % spec_str(allspecs),
                        'fail'))
            continue
        got = []
        for v in GRID:
            write_dep(deps, 'dep', v)
            p = subprocess.run(['pkg-config', '--exists', '--print-errors', 'mypkg-uninstalled'],
                               env=pc_env([os.path.join(bld, 'pkgconfig'), deps]),
                               stdout=subprocess.PIPE, stderr=subprocess.STDOUT, text=True)
            if p.returncode == 0:
                got.append(v)
        if kind == 'requires':
            want = sat
        else:
            # the package conflicts with the versions the specifier set accepts
            want = [v for v in GRID if not all(accepts(s, v) for s in pub)]
        pc = open(os.path.join(bld, 'pkgconfig', 'mypkg-uninstalled.pc')).read()
        lines = [l for l in pc.splitlines() if l.startswith(('Requires', 'Conflicts'))]
        if got != want:
            res.append((label, 'written %r: pkg-config accepts dep versions %r, the script\'s specifiers accept %r'
                        % (lines, got, want), 'fail'))
        else:
            res.append((label, None, 'ok'))
    shutil.rmtree(root, ignore_errors=True)
    return res


# ------------------------------------------------------------------ (b)

SPECIAL = ['a b', "it's", 'q"q', 'do$lar', 'ha#sh', 'back\\slash', 'plain', 'semi;colon', 'pa(r)en', 'am&p']


def sh_split(text):
    """pkg-config's output format: words separated by unescaped whitespace, `\\x` stands for x.
    (No variable expansion: pkgconf prints `$` as is, so an `eval` reading would expand it.)"""
    words, cur, have = [], [], False
    i = 0
    while i < len(text):
        c = text[i]
        if c == '\\' and i + 1 < len(text):
            cur.append(text[i + 1])
            have = True
            i += 2
            continue
        if c in ' \t\n':
            if have:
                words.append(''.join(cur))
                cur, have = [], False
            i += 1
            continue
        cur.append(c)
        have = True
        i += 1
    if have:
        words.append(''.join(cur))
    return words


def norm_flags(words):
    out = []
    for w in words:
        if w[:2] in ('-I', '-L') and len(w) > 2:
            out.append(w[:2] + os.path.normpath(w[2:]))
        else:
            out.append(w)
    return sorted(out)


def pkgconf(args, paths):
    p = subprocess.run(['pkg-config'] + args, env=pc_env(paths), stdout=subprocess.PIPE, stderr=subprocess.PIPE,
                       text=True)
    return p.returncode, p.stdout.strip(), p.stderr.strip()


def _flag_shard(arg):
    cases = arg
    root = os.path.join(core.worker_dir(), 'c17b')
    res = []
    for incname, opt, libkind, auto in cases:
        shutil.rmtree(root, ignore_errors=True)
        src, bld = os.path.join(root, 'src'), os.path.join(root, 'bld')
        inst = os.path.join(root, 'inst')
        incdir = 'inc ' + incname
        files = {os.path.join(incdir, 'h.h'): '#define H\n', 'plain inc/p.h': '#define P\n',
                 'a.c': 'int a;\n', 'b.c': 'int b;\n', 'c.c': 'int c;\n'}
        lines = ["project('proj', version='3.1')",
                 "inc = header_directory(%r, include='*.h')" % incdir,
                 "inc2 = header_directory('plain inc', include='*.h')"]
        if libkind == 'shared':
            lines.append("lib = shared_library('sub/mylib', ['a.c'])")
            want_lib, priv_libs, priv_opts = 'mylib', [], []
        elif libkind == 'static-chain':
            # options with a separate argument, the option word repeated across the chain
            lines.append("inner = static_library('deep/inner', ['b.c'], link_options=['-Wl,--inner', '-u', 'inner_sym'])")
            lines.append("lib = static_library('mylib', ['a.c'], libs=[inner], link_options=['-Wl,--mid', '-u', 'mid_sym'])")
            want_lib, priv_libs, priv_opts = 'mylib', ['inner'], ['-Wl,--mid', '-u', 'mid_sym', '-Wl,--inner', '-u',
                                                                   'inner_sym']
        else:
            lines.append("lib = library('mylib', ['a.c'])")
            want_lib, priv_libs, priv_opts = 'mylib', [], []
        lines.append("other = pkg_config('otherpkg', version='0.9', auto_fill=%r)" % False)
        lines.append("pkg_config('mypkg', version='1.5', desc='a %s', includes=[inc, inc2], libs=[lib], "
                     "options=[%r, opts.define('DEF', %r)], link_options=[%r], "
                     "link_options_private=['-Wl,--priv', '-u', 'priv_sym'], requires=['otherpkg'], "
                     # (the same package again in the private list: it stays a PUBLIC requirement)
                     "requires_private=[('otherpkg', '>=0.5')], auto_fill=%r)"
                     % (incname.replace("'", ''), '-DOPT=' + opt, opt, '-Wl,--x=' + opt.replace(',', ''), auto))
        # things auto_fill could pick up: installed headers and libraries; two packages that say
        # explicitly that they have NO libraries / NO include directories
        # (for the static chain the inner library is installed explicitly AFTER the one that pulled it
        # in implicitly: a package that leaves libs to auto_fill must still list both)
        lines.append("install(lib, inner, inc2)" if libkind == 'static-chain' else "install(lib, inc2)")
        lines.append("pkg_config('autopkg', version='1.0', auto_fill=True)")
        lines.append("pkg_config('hdronly', version='1.0', includes=[inc2], libs=[], auto_fill=True)")
        lines.append("pkg_config('binonly', version='1.0', includes=[], libs=[lib], auto_fill=True)")
        files['build.bfg'] = '\n'.join(lines) + '\n'
        pr = proj.Proj(os.path.join(root, 'p'), 'make', files, files['build.bfg'],
                       args=['--prefix=' + os.path.join(inst, 'pre fix'), '--enable-static'])
        os.remove(os.path.join(pr.bin, 'doppel'))
        label = dict(include=incname, option=opt, lib=libkind, auto_fill=auto)
        r = pr.configure()
        if r.rc != 0:
            res.append((label, 'configure fails: ' + r.err.strip()[-300:]))
            continue
        problems = []
        exp_c_un = ['-I' + os.path.join(pr.src, incdir), '-I' + os.path.join(pr.src, 'plain inc'),
                    '-DOPT=' + opt, '-DDEF=' + opt]
        exp_c_in = ['-I' + os.path.join(inst, 'pre fix', 'include'), '-DOPT=' + opt, '-DDEF=' + opt]
        xopt = '-Wl,--x=' + opt.replace(',', '')

        def check(tag, pcname, paths, libdir, exp_c):
            rc, out, err = pkgconf(['--cflags', pcname], paths)
            if rc != 0:
                problems.append('%s: pkg-config --cflags fails: %s' % (tag, err[-200:]))
                return
            got = norm_flags(sh_split(out))
            if got != norm_flags(exp_c):
                problems.append('%s --cflags: %r, declared %r' % (tag, got, norm_flags(exp_c)))
            rc, out, err = pkgconf(['--libs', pcname], paths)
            got = norm_flags(sh_split(out))
            exp = [xopt, '-L' + libdir, '-l' + want_lib]
            if rc != 0 or got != norm_flags(exp):
                problems.append('%s --libs: %r, declared %r %s' % (tag, got, norm_flags(exp), err[-100:]))
            rc, out, err = pkgconf(['--libs', '--static', pcname], paths)
            got = norm_flags(sh_split(out))
            exps = exp + ['-Wl,--priv', '-u', 'priv_sym'] + priv_opts + ['-l' + l for l in priv_libs]
            gl = [g for g in got if not g.startswith('-L')]
            el = [g for g in norm_flags(exps) if not g.startswith('-L')]
            if rc != 0 or gl != el:
                problems.append('%s --libs --static: %r, declared %r %s' % (tag, gl, el, err[-100:]))
            # an option and its separate argument must stay adjacent
            seq = sh_split(out)
            pairs = sorted(seq[i + 1] if i + 1 < len(seq) else None for i, w in enumerate(seq) if w == '-u')
            epairs = sorted(exps[i + 1] for i, w in enumerate(exps) if w == '-u')
            if rc == 0 and pairs != epairs:
                problems.append('%s --libs --static: the arguments following -u are %r, declared %r'
                                % (tag, pairs, epairs))
            rc, out, err = pkgconf(['--print-requires', pcname], paths)
            if rc != 0 or [l.split()[0] for l in out.splitlines() if l.strip()] != ['otherpkg']:
                problems.append('%s --print-requires: %r' % (tag, out))
        pcdir = os.path.join(pr.bld, 'pkgconfig')
        rc, out, err = pkgconf(['--libs', 'autopkg-uninstalled'], [pcdir])
        wantl = ['-linner', '-lmylib'] if libkind == 'static-chain' else ['-lmylib']
        gotl = sorted(w for w in sh_split(out) if w.startswith('-l'))
        if rc != 0 or gotl != wantl:
            problems.append('autopkg-uninstalled --libs (libs left to auto_fill): %r, the explicitly installed '
                            'libraries are %r %s' % (gotl, wantl, err[-100:]))
        for pcn, flag, bad in (('hdronly-uninstalled', '--libs', '-l'), ('binonly-uninstalled', '--cflags', '-I')):
            rc, out, err = pkgconf([flag, pcn], [pcdir])
            got = sh_split(out)
            if rc != 0:
                problems.append('%s %s fails: %s' % (pcn, flag, err[-150:]))
            elif any(w.startswith(bad) for w in got):
                problems.append('%s %s: %r although the script declared an empty list' % (pcn, flag, got))
        check('uninstalled', 'mypkg-uninstalled', [pcdir], pr.bld if libkind != 'shared' else
              os.path.join(pr.bld, 'sub'), exp_c_un)
        # installed form, through a real install into DESTDIR
        rc, out, recs = pr.run(['install'])
        if rc != 0:
            problems.append('install fails: ' + out[-200:])
        else:
            ipc = os.path.join(inst, 'pre fix', 'lib', 'pkgconfig')
            if not os.path.exists(os.path.join(ipc, 'mypkg.pc')):
                problems.append('mypkg.pc was not installed to %s' % ipc.replace(root, '<root>'))
            else:
                env_dis = [ipc]
                check('installed', 'mypkg', env_dis,
                      os.path.join(inst, 'pre fix', 'lib') if libkind != 'shared' else
                      os.path.join(inst, 'pre fix', 'lib', 'sub'), exp_c_in)
        # the build directory can be moved: -uninstalled must follow it
        # (no space in the new name: pkgconf pre-escapes ${pcfiledir}, which is its own business)
        moved = os.path.join(root, 'p', 'moved-bld')
        os.rename(pr.bld, moved)
        check('uninstalled-moved', 'mypkg-uninstalled', [os.path.join(moved, 'pkgconfig')],
              moved if libkind != 'shared' else os.path.join(moved, 'sub'), exp_c_un)
        res.append((label, '; '.join(problems) if problems else None))
    shutil.rmtree(root, ignore_errors=True)
    return res


CONSUMER = '#include "mylib.h"\n#include <stdio.h>\nint main(void){ printf("%d\\n", mylib_value() + MYLIB_CONST); return 0; }\n'


def _consumer_shard(arg):
    """real toolchain: a consumer compiled and linked with the flags pkg-config reports"""
    libkind = arg
    root = os.path.join(core.worker_dir(), 'c17c')
    shutil.rmtree(root, ignore_errors=True)
    files = {'include dir/mylib.h': '#define MYLIB_CONST 2\nint mylib_value(void);\n',
             'inner.c': 'int inner_value(void){return 30;}\n',
             'mylib.c': '#include "mylib.h"\nint inner_value(void);\nint mylib_value(void){return 10 + inner_value() + EXTRA;}\n'}
    lines = ["project('proj', version='1.0')", "inc = header_directory('include dir', include='*.h')"]
    if libkind == 'shared':
        lines.append("inner = static_library('in ner/inner', ['inner.c'])")
        lines.append("lib = shared_library('mylib', ['mylib.c'], includes=[inc], libs=[inner], "
                     "compile_options=['-DEXTRA=0'])")
    else:
        lines.append("inner = static_library('in ner/inner', ['inner.c'])")
        lines.append("lib = static_library('out/mylib', ['mylib.c'], includes=[inc], libs=[inner], "
                     "compile_options=['-DEXTRA=0'])")
    lines.append("pkg_config('mypkg', version='1.0', includes=[inc], libs=[lib], auto_fill=True)")
    files['build.bfg'] = '\n'.join(lines) + '\n'
    src, bld, inst = os.path.join(root, 'src'), os.path.join(root, 'bld'), os.path.join(root, 'inst root')
    bfg.write_tree(src, files)
    env = bfg.base_env()
    r = bfg.configure(src, bld, 'make', env, args=['--prefix=' + inst])
    label = dict(consumer=libkind)
    if r.rc != 0:
        return [(label, 'configure fails: ' + r.err[-300:])]
    rc, out = bfg.run_tool(['make', 'install'], bld, env)
    if rc != 0:
        return [(label, 'build/install fails: ' + out[-300:])]
    problems = []
    with open(os.path.join(root, 'consumer.c'), 'w') as f:
        f.write(CONSUMER)
    for tag, pcname, paths, ldpath in (('uninstalled', 'mypkg-uninstalled', [os.path.join(bld, 'pkgconfig')], bld),
                                      ('installed', 'mypkg', [os.path.join(inst, 'lib', 'pkgconfig')],
                                       os.path.join(inst, 'lib'))):
        static = ['--static'] if libkind != 'shared' else []
        rc1, cf, e1 = pkgconf(['--cflags', pcname], paths)
        rc2, lf, e2 = pkgconf(['--libs'] + static + [pcname], paths)
        if rc1 or rc2:
            problems.append('%s: pkg-config fails: %s %s' % (tag, e1, e2))
            continue
        exe = os.path.join(root, 'consumer-' + tag)
        cmd = 'gcc %s %s -o %s %s' % (cf, os.path.join(root, 'consumer.c').replace(' ', '\\ '),
                                      exe.replace(' ', '\\ '), lf)
        p = subprocess.run(['/bin/sh', '-c', cmd], stdout=subprocess.PIPE, stderr=subprocess.STDOUT, text=True)
        if p.returncode != 0:
            problems.append('%s: consumer does not build with the reported flags: %s' % (tag, p.stdout[-300:]))
            continue
        q = subprocess.run([exe], stdout=subprocess.PIPE, text=True, env={'LD_LIBRARY_PATH': ldpath})
        if q.stdout.strip() != '42':
            problems.append('%s: consumer prints %r, expected 42' % (tag, q.stdout.strip()))
    shutil.rmtree(root, ignore_errors=True)
    return [(label, '; '.join(problems) if problems else None)]


def run(ctx):
    th = ctx.thorough
    specs = [(o, v) for o in OPS for v in VERS]
    sets = []
    for n in range(1, (3 if th else 2) + 1):
        sets += list(itertools.combinations(specs, n))
    if not th:
        # quick: of the three-specifier sets those around a point interval (>=v, <=v plus one more),
        # the shape in which the thorough tier found `>=1.0,<=1.0,!=1.0` accepted as `==1.0`
        for v in VERS:
            for third in specs:
                t = (('>=', v), ('<=', v), third)
                if third not in t[:2]:
                    sets.append(t)
    cases = []
    for s in sets:
        for mask in itertools.product((0, 1), repeat=len(s)):
            pub = tuple(x for x, m in zip(s, mask) if not m)
            priv = tuple(x for x, m in zip(s, mask) if m)
            cases.append(('requires', pub, priv))
        if len(s) <= 2:
            cases.append(('conflicts', tuple(s), ()))
    cases = core.seeded_order(cases, ctx.seed)
    shards = [('spec', ch) for ch in core.chunks(cases, max(10, len(cases) // (4 * core.NCPU)))]
    fcases = []
    # include DIRECTORY names must be expressible by Make at all (`;` is not: see C04's witnesses)
    # (`;` is not; a single quote and glob characters hit C04's known findings; `\\` is a separator)
    incnames = [x for x in SPECIAL if not any(c in x for c in ";'\\\"")]
    for inc, opt in itertools.product(incnames, SPECIAL) if th else \
            [(a, b) for a, b in zip(incnames, SPECIAL[3:] + SPECIAL[:3])] + [(a, a) for a in incnames] + \
            [('plain', 'semi;colon')]:
        for lk in ('shared', 'static-chain', 'dual'):
            for auto in ((False, True) if th or lk == 'shared' else (True,)):
                fcases.append((inc, opt, lk, auto))
    shards += [('flag', ch) for ch in core.chunks(fcases, max(2, len(fcases) // (3 * core.NCPU)))]
    shards += [('consumer', 'shared'), ('consumer', 'static')]
    res = core.pmap(_dispatch, shards)
    n = 0
    outcomes = {}
    fails = []
    per_op_ok = set()
    for (k, a), rows in zip(shards, res):
        for row in rows:
            n += 1
            label, msg = row[0], row[1]
            tag = row[2] if len(row) > 2 else ('ok' if msg is None else 'fail')
            outcomes[tag] = outcomes.get(tag, 0) + 1
            if k == 'spec' and tag == 'ok':
                for part in (label['public'] + ',' + label['private']).split(','):
                    for o in sorted(OPS, key=len, reverse=True):
                        if part.startswith(o):
                            per_op_ok.add(o)
                            break
            if msg:
                fails.append((k, len(json.dumps(label)), json.dumps(label, sort_keys=True), msg))
    fails.sort()
    seen = set()
    for k, _, lj, msg in fails:
        l = json.loads(lj)
        sig = (k, l.get('kind'), msg.split(':')[0][:40])
        if sig in seen:
            continue
        seen.add(sig)
        ctx.violation('C17:%s:%s' % (k, lj), '%s case %s: %s' % (k, lj, msg), case=l, observed=msg)
    if outcomes.get('ok', 0) < 100 or per_op_ok != set(OPS):
        raise core.HarnessError('vacuous C17 exploration: %r %r' % (outcomes, per_op_ok))
    ctx.level = 'exploration'
    ctx.cov.update(
        evaluations=n, distinct_nontrivial=outcomes.get('ok', 0),
        rule='(a) all sets of <= %d specifiers over %r x %r, every split across requires / requires_private, and the '
             'Conflicts list for sets of <= 2: accepted dependency versions according to the real pkg-config (dummy '
             'dep.pc for each version of the grid %r, which contains every endpoint and a point of every open interval) '
             '== versions the script\'s specifiers accept; unsatisfiable sets must be rejected at configure time. '
             '(b) include-directory names and option values over %r x library kinds (shared in a sub-directory, static '
             'chain with forwarded link options, dual) x auto_fill: --cflags / --libs / --libs --static / '
             '--print-requires of the installed (real install into a prefix with a space) and -uninstalled files, from '
             'the build directory and after moving it, split by /bin/sh and compared as multisets with the declaration; '
             'a consumer built with the real gcc from the reported flags prints 42' % (3 if th else 2, OPS, VERS, GRID,
                                                                                     SPECIAL),
        samples=[dict(public='>=1.0', private='<2.0'), dict(include=SPECIAL[1], option=SPECIAL[3], lib='static-chain')],
        exhaustive=True, outcomes=outcomes, operators_with_written_lists=sorted(per_op_ok),
        states=n, transitions=n, traces_validated_against_impl=n)
    ctx.assumptions += ['a configure-time rejection of a satisfiable set (several specifiers per name) is not a '
                        'violation; counted as rejected-satisfiable', 'pkgconf groups and de-duplicates -I/-L words: '
                        'flags are compared as sorted lists after normalising paths']


def _dispatch(sh):
    k, a = sh
    return {'spec': _spec_shard, 'flag': _flag_shard, 'consumer': _consumer_shard}[k](a)


def parse_specs(text):
    out = []
    for w in [x for x in text.split(',') if x]:
        for op in sorted(OPS, key=len, reverse=True):
            if w.startswith(op):
                out.append((op, w[len(op):]))
                break
    return tuple(out)


def replay(rec):
    print(json.dumps(rec, indent=1)[:2500])
    c = rec['case']
    if 'kind' in c:
        r = _spec_shard([(c['kind'], parse_specs(c['public']), parse_specs(c['private']))])
        print(r)
        return all(x[1] is None for x in r)
    if 'consumer' in c:
        r = _consumer_shard(c['consumer'])
    else:
        r = _flag_shard([(c['include'], c['option'], c['lib'], c['auto_fill'])])
    print(r)
    return all(x[1] is None for x in r)
