"""Shared machinery for C01 (Make) and C02 (Ninja): every argument string, in every
argument position, reaches the started process unchanged.

Shape A.  Strings are enumerated exhaustively over the alphabets of DESIGN.md §6; each is
placed in each position of a generated build.bfg; bfg9000 is configured in-process; the real
make (or refninja) + /bin/sh run the step against the recording stub toolchain; the oracle is
identity on argv / environ.  Batches only raise suspicion; singletons decide; candidates are
re-confirmed through the CLI in fresh processes.
"""
import itertools
import json
import os
import re
import shutil
import subprocess

from kernel import core, bfg

SIGMA_FULL = [chr(c) for c in range(0x20, 0x7f)] + ['\t', 'é', '日', '😀']
SIGMA_CLS = list('a0 ') + ['\t'] + list('\'"\\$#%:;=,()*~|&-@!') + ['é']
SIGMA_Q = ['a', "'", ' ', '\\']

BATCH = 64
RESERVED_WORDS = {'cc', 'c++', 'gcc', 'g++', 'ar', 'gfortran', 'ld', 'clang', 'clang++', 'rec', 'drv',
                  'cp', 'ln', 'ninja', 'gen', 'cpstub', 'doppel', 'patchelf'}


def string_space(thorough):
    seen, out = set(), []

    def add(s):
        if s not in seen:
            seen.add(s)
            out.append(s)
    add('')
    for c in SIGMA_FULL:
        add(c)
    if thorough:
        for t in itertools.product(SIGMA_FULL, repeat=2):
            add(''.join(t))
    else:
        for t in itertools.product(SIGMA_CLS, repeat=2):
            add(''.join(t))
    for n in range(1, (6 if thorough else 4) + 1):
        for t in itertools.product(SIGMA_Q, repeat=n):
            add(''.join(t))
    if thorough:
        for t in itertools.product(SIGMA_CLS, repeat=3):
            add(''.join(t))
    return out


def small_space():
    """Used for per-project positions (global options, environment flags)."""
    seen, out = set(), []
    for c in SIGMA_FULL:
        out.append(c)
    for t in itertools.product(SIGMA_CLS, repeat=2):
        out.append(''.join(t))
    for n in range(3, 5):
        for t in itertools.product(SIGMA_Q, repeat=n):
            out.append(''.join(t))
    res = []
    for s in out:
        if s not in seen:
            seen.add(s)
            res.append(s)
    return res


# ------------------------------------------------------------------ positions
# A position knows how to render a batch of strings into a build.bfg, which targets to
# build, and how to read the observed value for case i out of the recorder log.

def py(s):
    return repr(s)


class Position:
    name = '?'
    per_project = False      # True: one string per project (global state)
    needs_nonempty = False
    goal = 'all'

    def script(self, strings):
        raise NotImplementedError

    def targets(self, strings):
        return ['c%d' % i for i in range(len(strings))]

    def expected(self, s):
        return s

    def observe(self, i, s, recs):
        raise NotImplementedError

    def admissible(self, s, ctxinfo):
        return True


def _find(recs, pred):
    return [r for r in recs if pred(r)]


class CmdArg(Position):
    name = 'command_arg'

    def script(self, strings):
        return '\n'.join("command('c%d', cmd=['rec', 'ID%d', %s])" % (i, i, py(s))
                         for i, s in enumerate(strings)) + '\n'

    def observe(self, i, s, recs):
        r = _find(recs, lambda r: r['tool'] == 'rec' and r['argv'][1:2] == ['ID%d' % i])
        return [x['argv'][2:] for x in r]

    def expected(self, s):
        return [[s]]


class CmdArgEnvBoth(CmdArg):
    """argument after an `export` prefix, plus second command joined with &&"""
    name = 'command_arg_multi'

    def script(self, strings):
        return '\n'.join(
            "command('c%d', cmds=[['rec', 'ID%d', %s], ['rec', 'ID%d', 'second', %s]], "
            "environment={'VVX': 'k'})" % (i, i, py(s), i, py(s))
            for i, s in enumerate(strings)) + '\n'

    def expected(self, s):
        return [[s], ['second', s]]


class BuildStepArg(Position):
    name = 'build_step_arg'

    def script(self, strings):
        return '\n'.join(
            "build_step('c%d', cmds=[['rec', 'ID%d', %s], ['touch', build_step.output]])"
            % (i, i, py(s)) for i, s in enumerate(strings)) + '\n'

    def observe(self, i, s, recs):
        r = _find(recs, lambda r: r['tool'] == 'rec' and r['argv'][1:2] == ['ID%d' % i])
        return [x['argv'][2:] for x in r]

    def expected(self, s):
        return [[s]]


class CmdWord(Position):
    name = 'command_word'
    needs_nonempty = True

    def script(self, strings):
        return '\n'.join("command('c%d', cmd=[%s, 'ID%d'])" % (i, py(s), i)
                         for i, s in enumerate(strings)) + '\n'

    def observe(self, i, s, recs):
        r = _find(recs, lambda r: r['argv'][1:2] == ['ID%d' % i])
        return [x['argv'][0] for x in r]

    def expected(self, s):
        return [s]

    def admissible(self, s, info):
        # names the stub toolchain already uses have a behaviour of their own
        return s in info['cmdwords'] and s not in RESERVED_WORDS


class CmdArgLongLine(Position):
    """the string as an argument at MANY columns of one very long command line (25 commands joined,
    each with a padding word one character longer than the last): whatever the backend does to long
    lines (wrapping, continuation) must not touch the argument.  Strings with blanks only."""
    name = 'command_arg_long_line'
    PADS = list(range(30, 80, 2))

    def admissible(self, s, info):
        return ' ' in s or '\t' in s

    def script(self, strings):
        return '\n'.join("command('c%d', cmds=[%s])" % (
            i, ', '.join("['rec', 'ID%d_%d', %r, %s, 'tail']" % (i, k, 'p' * k, py(s)) for k in self.PADS))
            for i, s in enumerate(strings)) + '\n'

    def observe(self, i, s, recs):
        pre = 'ID%d_' % i
        r = _find(recs, lambda r: r['tool'] == 'rec' and r['argv'][1:2] and r['argv'][1].startswith(pre))
        return sorted((int(x['argv'][1][len(pre):]), x['argv'][3:]) for x in r)

    def expected(self, s):
        return [(k, [s, 'tail']) for k in self.PADS]


class CmdWordLater(CmdWord):
    """the command word of the SECOND command of a step that also has an environment: not the
    first word of the recipe line"""
    name = 'command_word_later'

    def script(self, strings):
        return '\n'.join("command('c%d', cmds=[['rec', 'FIRST%d'], [%s, 'ID%d']], environment={'VVX': 'k'})"
                         % (i, i, py(s), i) for i, s in enumerate(strings)) + '\n'


class EnvValue(Position):
    name = 'command_env'

    def script(self, strings):
        return '\n'.join(
            "command('c%d', cmd=['rec', 'ID%d'], environment={'VV0': %s, 'VV1': 'k'})"
            % (i, i, py(s)) for i, s in enumerate(strings)) + '\n'

    def observe(self, i, s, recs):
        r = _find(recs, lambda r: r['tool'] == 'rec' and r['argv'][1:2] == ['ID%d' % i])
        return [(x['env'].get('VV0'), x['env'].get('VV1')) for x in r]

    def expected(self, s):
        return [(s, 'k')]


class EnvValueShellLine(EnvValue):
    """the command is ONE string (a shell line of two simple commands): the environment must reach
    every process the line starts, not only the first"""
    name = 'command_env_shell_line'

    def script(self, strings):
        return '\n'.join(
            "command('c%d', cmd='true && rec ID%d', environment={'VV0': %s, 'VV1': 'k'})"
            % (i, i, py(s)) for i, s in enumerate(strings)) + '\n'


class TestArg(Position):
    name = 'test_arg'
    goal = 'test'

    def script(self, strings):
        return '\n'.join("test(['rec', 'ID%d', %s], environment={'VV0': %s})"
                         % (i, py(s), py(s)) for i, s in enumerate(strings)) + '\n'

    def targets(self, strings):
        return ['test']

    def observe(self, i, s, recs):
        r = _find(recs, lambda r: r['tool'] == 'rec' and r['argv'][1:2] == ['ID%d' % i])
        return [(x['argv'][2:], x['env'].get('VV0')) for x in r]

    def expected(self, s):
        return [([s], s)]


class DriverArg(Position):
    """test_driver: multi-word children arrive as ONE argument that /bin/sh -c turns back
    into the child's words; the driver's own arguments are delivered too."""
    name = 'test_driver_child'
    goal = 'test'

    def __init__(self, wrap):
        self.wrap = wrap
        self.name = 'test_driver_child' + ('_wrap' if wrap else '')

    def script(self, strings):
        lines = []
        for i, s in enumerate(strings):
            lines.append("d%d = test_driver(['drv', 'DID%d', %s], wrap_children=%r)"
                         % (i, i, py(s), self.wrap))
            lines.append("test(['rec', 'ID%d', %s], driver=d%d)" % (i, py(s), i))
            lines.append("test(['rec', 'ID%d', 'two', %s], driver=d%d)" % (i, py(s), i))
        return '\n'.join(lines) + '\n'

    def targets(self, strings):
        return ['test']

    def observe(self, i, s, recs):
        d = _find(recs, lambda r: r['tool'] == 'drv' and r['argv'][1:2] == ['DID%d' % i])
        r = _find(recs, lambda r: r['tool'] == 'rec' and r['argv'][1:2] == ['ID%d' % i])
        return ([(x['argv'][2:3], len(x['argv'])) for x in d],
                [x['argv'][2:] for x in r])

    def expected(self, s):
        return ([([s], 5)], [[s], ['two', s]])


class DriverWord(Position):
    """one-word child of a driver reaches the driver as exactly that word"""
    name = 'test_driver_word'
    goal = 'test'

    def script(self, strings):
        lines = []
        for i, s in enumerate(strings):
            lines.append("d%d = test_driver(['rec', 'DID%d'])" % (i, i))
            lines.append("test([%s], driver=d%d)" % (py(s), i))
        return '\n'.join(lines) + '\n'

    def targets(self, strings):
        return ['test']

    def observe(self, i, s, recs):
        d = _find(recs, lambda r: r['tool'] == 'rec' and r['argv'][1:2] == ['DID%d' % i])
        return [x['argv'][2:] for x in d]

    def expected(self, s):
        return [[s]]


class CompileOpt(Position):
    name = 'compile_option'

    def script(self, strings):
        return '\n'.join("object_file('c%d', file='main.c', options=[%s, '-DK=1'])"
                         % (i, py(s)) for i, s in enumerate(strings)) + '\n'

    def targets(self, strings):
        return ['c%d.o' % i for i in range(len(strings))]

    def observe(self, i, s, recs):
        r = _find(recs, lambda r: r['tool'] == 'cc' and r['outputs'] == ['c%d.o' % i])
        return [_strip_compile(x['argv']) for x in r]

    def expected(self, s):
        return [[s, '-DK=1']]


def _strip_compile(argv):
    """user flags of a compile command: between `-x c` and `-c`, minus Ninja's colour flag"""
    a = list(argv[1:])
    if a[:2] == ['-x', 'c']:
        a = a[2:]
    if '-c' in a:
        a = a[:len(a) - 1 - a[::-1].index('-c')]      # the generated -c is the last one
    out = []
    dropped = False
    for x in a:
        # Ninja's own colour flag is the first flag after `-x c`
        if not dropped and x in ('-fdiagnostics-color', '-fcolor-diagnostics') and not out:
            dropped = True
            continue
        out.append(x)
    return out


def _strip_link(argv, out):
    a = list(argv[1:])
    # cc <ldflags> objs <ldlibs> -o out
    if '-o' in a:
        a = a[:len(a) - 1 - a[::-1].index('-o')]
    return [x for x in a if x not in ('./main.o', 'main.o', 'c0.int/main.o')]


class DefineOpt(Position):
    name = 'define_value'

    def script(self, strings):
        return '\n'.join(
            "object_file('c%d', file='main.c', options=[opts.define('NAME', %s)])"
            % (i, py(s)) for i, s in enumerate(strings)) + '\n'

    def targets(self, strings):
        return ['c%d.o' % i for i in range(len(strings))]

    def observe(self, i, s, recs):
        r = _find(recs, lambda r: r['tool'] == 'cc' and r['outputs'] == ['c%d.o' % i])
        return [_strip_compile(x['argv']) for x in r]

    def expected(self, s):
        return [['-DNAME=' + s]]


class LinkOpt(Position):
    name = 'link_option'

    def script(self, strings):
        return "o = object_file('main', file='main.c')\n" + '\n'.join(
            "executable('c%d', [o], link_options=[%s, '-Wl,-k'])" % (i, py(s))
            for i, s in enumerate(strings)) + '\n'

    def observe(self, i, s, recs):
        r = _find(recs, lambda r: r['tool'] == 'cc' and r['outputs'] == ['c%d' % i])
        return [_strip_link(x['argv'], 'c%d' % i) for x in r]

    def expected(self, s):
        return [[s, '-Wl,-k']]


class IncludeDir(Position):
    """include directory named by the string (passed as -I<dir>)"""
    name = 'include_dir'
    needs_nonempty = True

    def script(self, strings):
        return '\n'.join(
            "object_file('c%d', file='main.c', includes=[header_directory(%s)])"
            % (i, py('inc/' + s + '/')) for i, s in enumerate(strings)) + '\n'

    def files(self, strings):
        return {os.path.join('inc', s, 'h.h'): '' for s in strings}

    def targets(self, strings):
        return ['c%d.o' % i for i in range(len(strings))]

    def observe(self, i, s, recs):
        r = _find(recs, lambda r: r['tool'] == 'cc' and r['outputs'] == ['c%d.o' % i])
        return [_strip_compile(x['argv']) for x in r]

    def expected(self, s):
        return None    # filled by the check (needs srcdir)

    def admissible(self, s, info):
        # path-component domain: no separators, not . or .., no leading ~ (user expansion),
        # no drive-letter form; names Make cannot express are C04's business
        if '/' in s or '\\' in s or s in ('.', '..') or s.startswith('~'):
            return False
        if len(s) >= 2 and s[1] == ':' and s[0].isalpha():
            return False
        return s.strip(' ') == s and s != ''


class GlobalOpt(Position):
    name = 'global_option'
    per_project = True

    def script(self, strings):
        s, = strings
        return ("global_options([%s, '-DG=1'], lang='c')\n"
                "global_link_options([%s, '-Wl,-g'])\n"
                "executable('c0', ['main.c'], compile_options=['-DL=1', '-DG=1'], "
                "link_options=['-Wl,-l', '-Wl,-g'])\n" % (py(s), py(s)))

    def targets(self, strings):
        return ['c0']

    def observe(self, i, s, recs):
        c = _find(recs, lambda r: r['tool'] == 'cc' and '-c' in r['argv'])
        l = _find(recs, lambda r: r['tool'] == 'cc' and r['outputs'] == ['c0'])
        return ([_strip_compile(x['argv']) for x in c],
                [_strip_link(x['argv'], 'c0') for x in l])

    def expected(self, s):
        # the per-target options repeat a global word: every occurrence must arrive
        return ([[s, '-DG=1', '-DL=1', '-DG=1']], [[s, '-Wl,-g', '-Wl,-l', '-Wl,-g']])


def sh_enc(s):
    """One shell word denoting s in the dialect on which /bin/sh and bfg9000's documented option
    splitting agree: quotes only; characters that sh takes literally in a word stay bare (so that
    a splitter that mistreats bare text is seen too), runs without a single quote go in '...',
    runs of single quotes in "..."; no backslashes outside quotes, no $ or ` in double quotes."""
    if s == '':
        return "''"
    out = []
    for run in re.findall(r"'+|[A-Za-z0-9_@%+=:,./\x80-\U0010ffff-]+|#+|[^'#A-Za-z0-9_@%+=:,./\x80-\U0010ffff-]+", s):
        if run[0] == "'":
            out.append('"%s"' % run)
        elif run[0] == '#':
            out.append(run if out else "'%s'" % run)      # a word starting with # is a comment
        elif re.match(r'[A-Za-z0-9_@%+=:,./\x80-\U0010ffff-]', run[0]):
            out.append(run)
        else:
            out.append("'%s'" % run)
    return ''.join(out)


def sh_enc_valid(strings):
    """run-time witness: the strings whose sh_enc() word /bin/sh itself reads back as the string"""
    ok = set()
    for ch in core.chunks(list(strings), 200):
        p = subprocess.run(['/bin/sh', '-c', 'printf "%s\\0" ' + ' '.join(sh_enc(x) for x in ch)],
                           stdout=subprocess.PIPE)
        out = p.stdout.decode('utf-8', 'replace').split('\0')[:-1]
        if len(out) == len(ch):
            ok.update(a for a, b in zip(ch, out) if a == b)
    return ok


class _ShEnc:
    def admissible(self, s, info):
        return s in info['shenc']


class CompileOptString(_ShEnc, CompileOpt):
    """options given as ONE string that bfg9000 splits by sh rules"""
    name = 'compile_option_string'

    def script(self, strings):
        return '\n'.join("object_file('c%d', file='main.c', options=%s)"
                         % (i, py(sh_enc(s) + "  -DK=1")) for i, s in enumerate(strings)) + '\n'


class LinkOptString(_ShEnc, LinkOpt):
    name = 'link_option_string'

    def script(self, strings):
        return "o = object_file('main', file='main.c')\n" + '\n'.join(
            "executable('c%d', [o], link_options=%s)" % (i, py(sh_enc(s) + "\t-Wl,-k"))
            for i, s in enumerate(strings)) + '\n'


class EnvFlags(_ShEnc, Position):
    """CPPFLAGS / CFLAGS / LDFLAGS / LDLIBS in the environment of `bfg9000 configure`, split by
    sh rules and carried through the build file's global flag variables"""
    name = 'configure_env_flags'
    per_project = True

    def script(self, strings):
        return "executable('c0', ['main.c'], compile_options=['-DL=1'], link_options=['-Wl,-l'])\n"

    def config_env(self, strings):
        s, = strings
        e = sh_enc(s)
        return {'CPPFLAGS': e + ' -DP=1', 'CFLAGS': '-DG=0 ' + e + ' -DG=1',
                'LDFLAGS': e + ' -Wl,-g', 'LDLIBS': '-lk ' + e}

    def targets(self, strings):
        return ['c0']

    def observe(self, i, s, recs):
        c = _find(recs, lambda r: r['tool'] == 'cc' and '-c' in r['argv'])
        l = _find(recs, lambda r: r['tool'] == 'cc' and r['outputs'] == ['c0'])
        return ([_strip_compile(x['argv']) for x in c],
                [_strip_link(x['argv'], 'c0') for x in l])

    def expected(self, s):
        return ([[s, '-DP=1', '-DG=0', s, '-DG=1', '-DL=1']], [[s, '-Wl,-g', '-Wl,-l', '-lk', s]])


class ToolPath(_ShEnc, Position):
    """the compiler lives in a directory named by the string: the tool command (CC=...) is written
    into the build file's tool variable and must start exactly that program"""
    name = 'tool_command_path'
    per_project = True
    needs_nonempty = True

    def admissible(self, s, info):
        return name_admissible(s) and s in info['shenc'] and len(s.encode()) < 100

    def prepare(self, rn, strings):
        s, = strings
        d = os.path.join(rn.root, 'tooldirs', s)
        shutil.rmtree(os.path.join(rn.root, 'tooldirs'), ignore_errors=True)
        os.makedirs(d)
        self._cc = os.path.join(d, 'cc')
        os.symlink(bfg.RECORDER, self._cc)

    def config_env(self, strings):
        return {'CC': sh_enc(self._cc)}

    def script(self, strings):
        return "executable('c0', ['main.c'])\n"

    def targets(self, strings):
        return ['c0']

    def observe(self, i, s, recs):
        return [x['argv'][0].replace(os.path.dirname(os.path.dirname(self._cc)), '<tooldirs>')
                for x in recs if x['tool'] == 'cc']

    def expected(self, s):
        p = '<tooldirs>/%s/cc' % s
        return [p, p]


def name_admissible(s):
    """path-component domain: no separators, not . or .., no leading ~ (user expansion),
    no drive-letter form, no leading/trailing space"""
    if '/' in s or '\\' in s or s in ('', '.', '..') or s.startswith('~'):
        return False
    if len(s) >= 2 and s[1] == ':' and s[0].isalpha():
        return False
    return s.strip(' ') == s


TEMPLATE = 'QXZ'


class FilePosition(Position):
    """positions where the string names a FILE: the expected argv is obtained from a
    reference item with the benign name QXZ in the same project (template substitution)"""
    needs_nonempty = True
    uses_template = True

    def admissible(self, s, info):
        # Ninja's lexer ends a path at `|` and the manifest language has no escape for it
        # ($$, $space, $: and $newline are the only ones): such names cannot be written as a
        # build-statement path at all, so the property is silent about them (rule 3).
        if info.get('backend') == 'ninja' and '|' in s:
            return False
        return name_admissible(s) and TEMPLATE not in s

    def files(self, strings):
        return {os.path.join('fd', s, 'f.txt'): 'x' for s in strings}


class FileInCommand(FilePosition):
    name = 'file_in_command'

    def script(self, strings):
        return '\n'.join(
            "command('c%d', cmd=['rec', 'ID%d', source_file(%s), directory(%s)])"
            % (i, i, py('fd/' + s + '/f.txt'), py('fd/' + s + '/'))
            for i, s in enumerate(strings)) + '\n'

    def observe(self, i, s, recs):
        r = _find(recs, lambda r: r['tool'] == 'rec' and r['argv'][1:2] == ['ID%d' % i])
        return [x['argv'][2:] for x in r]


class CopyPath(FilePosition):
    def __init__(self, mode, desc):
        self.mode, self.desc = mode, desc
        self.name = 'copy_file_%s%s' % (mode, '_described' if desc else '')

    def script(self, strings):
        d = ", description='copying'" if self.desc else ''
        return '\n'.join(
            "copy_file(%s, %s, mode=%r%s)" % (py('out%d/%s.txt' % (i, s)),
                                             py('fd/' + s + '/f.txt'), self.mode, d)
            for i, s in enumerate(strings)) + '\n'

    def targets(self, strings):
        return ['out%d/%s.txt' % (i, s) for i, s in enumerate(strings)]

    def observe(self, i, s, recs):
        pre = 'out%d/' % i
        r = _find(recs, lambda r: r['tool'] in ('cp', 'ln') and
                  any(a.startswith(pre) or ('/' + pre) in a for a in r['argv']))
        return [[a.replace(pre, 'out#/') for a in x['argv']] for x in r]


POSITIONS = [CmdArg(), CmdArgEnvBoth(), CmdArgLongLine(), BuildStepArg(), CmdWord(), CmdWordLater(), EnvValue(), EnvValueShellLine(), TestArg(),
             DriverArg(False), DriverArg(True), DriverWord(), CompileOpt(), DefineOpt(),
             LinkOpt(), GlobalOpt(), CompileOptString(), LinkOptString(), EnvFlags(), ToolPath()]
POS = {p.name: p for p in POSITIONS}


# ---------------------------------------------------------------- execution

class Runner:
    def __init__(self, backend):
        self.backend = backend
        self.root = core.worker_dir()
        self.bin = os.path.join(self.root, 'bin')
        bfg.make_stubbin(self.bin, extra=['rec', 'drv', 'cp', 'ln'])
        self.env = bfg.base_env(self.bin)
        self.n = 0

    def add_cmdwords(self, words):
        for w in words:
            p = os.path.join(self.bin, w)
            if not os.path.lexists(p):
                os.symlink(bfg.RECORDER, p)

    def run(self, pos, strings, inproc=True, keep=False):
        """-> list of observed values (None where nothing was observed), diagnostic"""
        tmpl = getattr(pos, 'uses_template', False)
        if tmpl:
            strings = [TEMPLATE] + list(strings)
        self.n += 1
        d = os.path.join(self.root, 'p%d' % self.n)
        shutil.rmtree(d, ignore_errors=True)
        src, bld = os.path.join(d, 'src'), os.path.join(d, 'bld')
        os.makedirs(src)
        files = {'build.bfg': pos.script(strings), 'main.c': 'int main(){return 0;}\n'}
        if hasattr(pos, 'files'):
            files.update(pos.files(strings))
        bfg.write_tree(src, files)
        env = self.env
        if hasattr(pos, 'prepare'):
            pos.prepare(self, strings)
        if hasattr(pos, 'config_env'):
            env = dict(env, **pos.config_env(strings))
        r = bfg.configure(src, bld, self.backend, env, inproc=inproc)
        diag = ''
        obs = [None] * len(strings)
        if r.rc != 0:
            diag = 'configure failed: ' + r.err[-600:]
        else:
            log = os.path.join(d, 'log')
            rc, out = bfg.build(self.backend, bld, pos.targets(strings), self.env, log,
                                flags=['-k'] if self.backend == 'make' else ['-k', '0'])
            recs = bfg.read_log(log)
            obs = [pos.observe(i, s, recs) for i, s in enumerate(strings)]
            diag = 'build rc=%d: %s' % (rc, out[-600:])
        if not keep:
            shutil.rmtree(d, ignore_errors=True)
        self.template = None
        if tmpl:
            self.template = json.loads(json.dumps(obs[0]).replace(json.dumps(src)[1:-1], '<src>'))
            obs = [json.loads(json.dumps(o).replace(json.dumps(src)[1:-1], '<src>')) for o in obs[1:]]
            if not self.template:
                diag = 'TEMPLATE ITEM NOT OBSERVED; ' + diag
        return obs, diag, src


def subst(obj, s):
    if isinstance(obj, str):
        return obj.replace(TEMPLATE, s)
    if isinstance(obj, (list, tuple)):
        return type(obj)(subst(x, s) for x in obj)
    return obj


def expected_for(pos, s, src, template=None):
    if getattr(pos, 'uses_template', False):
        return subst(template, s) if template else None
    if pos.name == 'include_dir':
        return [['-I' + os.path.join(src, 'inc', s)]]
    return pos.expected(s)


def sh_command_words(strings):
    """Strings /bin/sh would start as an external command when found on PATH (rule 3):
    excludes builtins, special builtins and reserved words, as classified by sh itself."""
    ok = set()
    cand = [s for s in strings if s and '/' not in s and '\0' not in s and
            s not in ('.', '..') and len(s.encode()) < 200]
    d = core.fresh_dir('cmdv.%d' % os.getpid())
    for s in cand:
        p = os.path.join(d, s)
        if not os.path.lexists(p):
            os.symlink('/bin/true', p)
    script = 'for w in "$@"; do t=$(command -v -- "$w" 2>/dev/null); ' \
             'case "$t" in /*) printf "%s\\0" "$w";; esac; done'
    for chunk in core.chunks(cand, 500):
        p = subprocess.run(['/bin/sh', '-c', script, 'sh'] + chunk,
                           env={'PATH': d}, stdout=subprocess.PIPE)
        for w in p.stdout.split(b'\0'):
            if w:
                ok.add(w.decode())
    shutil.rmtree(d, ignore_errors=True)
    return ok


def _work(arg):
    backend, posname, strings, info = arg
    pos = POS[posname]
    rn = Runner(backend)
    if posname.startswith('command_word'):
        rn.add_cmdwords(strings)
    results = []     # (string, ok, observed, diag)
    evals = 0
    batches = [[s] for s in strings] if pos.per_project else core.chunks(strings, BATCH)
    for batch in batches:
        obs, diag, src = rn.run(pos, batch)
        evals += 1
        suspects = []
        for s, o in zip(batch, obs):
            if o == expected_for(pos, s, src, rn.template) and o:
                results.append((s, True, None, ''))
            else:
                suspects.append(s)
        for s in suspects:
            if len(batch) > 1:
                o1, d1, src1 = rn.run(pos, [s])
                evals += 1
            else:
                o1, d1, src1 = obs, diag, src
            if o1[0] == expected_for(pos, s, src1, rn.template) and o1[0]:
                results.append((s, True, None, ''))
            else:
                results.append((s, False, o1[0], d1))
    return results, evals


def is_subseq(t, s):
    it = iter(s)
    return all(c in it for c in t)


def confirm(backend, posname, s, times=2):
    """Re-execute a failing singleton through the public CLI in fresh processes."""
    pos = POS[posname]
    rn = Runner(backend)
    if posname.startswith('command_word'):
        rn.add_cmdwords([s])
    outs = []
    for _ in range(times):
        o, d, src = rn.run(pos, [s], inproc=False)
        norm = json.loads(json.dumps(o[0]).replace(json.dumps(src)[1:-1], '<src>'))
        outs.append((bool(o[0]) and o[0] == expected_for(pos, s, src, rn.template), norm,
                     d.replace(src, '<src>')))
    return outs


def run_positions(ctx, backend, positions, strings, small):
    pid = ctx.pid
    info = {'cmdwords': sh_command_words(strings), 'backend': backend,
            'shenc': sh_enc_valid(set(strings) | set(small))}
    shards = []
    excluded = {}
    for pos in positions:
        dom = small if pos.per_project else strings
        adm = [s for s in dom if pos.admissible(s, info) and
               not (pos.needs_nonempty and s == '')]
        excluded[pos.name] = len(dom) - len(adm)
        per = max(BATCH, (len(adm) + 4 * core.NCPU - 1) // (4 * core.NCPU))
        if pos.per_project:
            per = max(8, (len(adm) + 4 * core.NCPU - 1) // (4 * core.NCPU))
        for ch in core.chunks(adm, per):
            shards.append((backend, pos.name, ch, info))
    order = core.seeded_order(range(len(shards)), ctx.seed)
    res = core.pmap(_work, [shards[i] for i in order])
    res = [r for _, r in sorted(zip(order, res), key=lambda t: t[0])]
    total = evals = 0
    perpos = {}
    fails = {}
    distinct = set()
    for (b, posname, ch, _), (results, ev) in zip(shards, res):
        evals += ev
        for s, ok, obs, diag in results:
            total += 1
            perpos[posname] = perpos.get(posname, 0) + 1
            distinct.add(s)
            if not ok:
                fails.setdefault(posname, []).append((s, obs, diag))
    # report subsequence-minimal failing strings per position, after CLI confirmation
    for posname, fl in fails.items():
        fl.sort(key=lambda t: (len(t[0]), t[0]))
        minimal = []
        for s, obs, diag in fl:
            if any(is_subseq(m[0], s) for m in minimal):
                continue
            minimal.append((s, obs, diag))
        for s, obs, diag in minimal:
            conf = confirm(backend, posname, s)
            if all(c[0] for c in conf):
                raise core.HarnessError(
                    'in-process failure not reproduced through the CLI: %s %r' % (posname, s))
            if not all(not c[0] for c in conf):
                raise core.HarnessError('nondeterministic confirmation for %s %r: %r'
                                        % (posname, s, conf))
            ctx.violation(
                '%s:%s:%s:%s' % (pid, backend, posname, json.dumps(s, ensure_ascii=False)),
                '%s backend, position %s: argument %r does not reach the process unchanged '
                '(%d strings containing it fail)' % (
                    backend, posname, s, sum(1 for f in fl if is_subseq(s, f[0]))),
                case=dict(backend=backend, position=posname, string=s),
                expected=repr(POS[posname].expected(s)), observed=repr(conf[0][1]),
                commands=[conf[0][2]])
    return dict(total=total, evals=evals, perpos=perpos, excluded=excluded,
                distinct=len(distinct),
                failing={k: len(v) for k, v in fails.items()})


def replay_case(rec):
    case = rec['case']
    conf = confirm(case['backend'], case['position'], case['string'], times=1)
    ok, obs, diag = conf[0]
    print('position=%s string=%r' % (case['position'], case['string']))
    print('expected:', POS[case['position']].expected(case['string']))
    print('observed:', obs)
    print(diag)
    return ok
