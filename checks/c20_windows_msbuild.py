"""C20 — Windows command lines round-trip through the MS C runtime rules; MSBuild solutions are
well-formed with stable, unique GUIDs.

(a) shape A: exhaustive argument strings / lists against models/msvcrt_argv.
(b) shape C: explicit-state BFS over histories of script edits + configure/regenerate runs of
    the real msbuild backend (in-process), invariants on every reached state and transition.
"""
import itertools
import json
import os
import re
import shutil
import xml.etree.ElementTree as ET

from kernel import core, bfg
from models import msvcrt_argv

QA = ['a', ' ', '\t', '"', '\\']
CMD_META = set('%^&<>|')


def arg_space(thorough):
    maxlen = 6 if thorough else 5
    out = ['']
    for n in range(1, maxlen + 1):
        out.extend(''.join(t) for t in itertools.product(QA, repeat=n))
    full = [chr(c) for c in range(0x20, 0x7f) if chr(c) not in CMD_META] + ['\t', 'é', '日']
    seen = set(out)
    for n in (1, 2):
        for t in itertools.product(full, repeat=n):
            s = ''.join(t)
            if s not in seen:
                seen.add(s)
                out.append(s)
    return out


def _quote_shard(arg):
    lists = arg
    from bfg9000.shell import windows
    viol = []
    distinct = set()
    for args in lists:
        args = list(args)
        line = windows.join(args)
        distinct.add(line)
        for post in (False, True):
            got = msvcrt_argv.parse('prog ' + line, post)[1:]
            if got != args:
                viol.append(('crt-roundtrip' + ('-post2008' if post else ''), args, line, got))
        got = windows.split(line)
        if got != args:
            viol.append(('split-inverse', args, line, got))
        for a in args:
            q = windows.quote(a)
            if '""' in q and q != '""':
                # Appendix B: the model's two CRT variants only differ on interior "" pairs
                pass
    return viol, len(lists), len(distinct)


# --------------------------------------------------------------------- (b)

NAMES = ['A', 'C', 'sub/C', 'D']     # 'C' and 'sub/C': same base name in different directories
KINDS = ['command', 'build_step', 'alias', 'copy']


BROKEN = ("command('zz_broken', cmd=['echo'], extra_deps=[object_file('zz_obj', "
          "file='zz.c')])")


def render(script, broken_at=None):
    """script: tuple of (name, kind, deps) sorted by NAMES order; broken_at=k inserts, before
    the k-th project, a step the msbuild backend cannot emit (the run fails part-way through
    rule emission)"""
    lines = ["project('proj')"]
    var = {}
    for idx, (name, kind, deps) in enumerate(script):
        if broken_at == idx:
            lines.append(BROKEN)
        v = 'p_' + re.sub(r'\W', '_', name)
        var[name] = v
        d = '[' + ', '.join(var[x] for x in deps) + ']'
        if kind == 'command':
            lines.append("%s = command(%r, cmd=['echo', %r], extra_deps=%s)" % (v, name, name, d))
        elif kind == 'build_step':
            lines.append("%s = build_step(%r, cmd=['touch', build_step.output], extra_deps=%s)"
                         % (v, name, d))
        elif kind == 'alias':
            lines.append("%s = alias(%r, %s)" % (v, name, d))
        elif kind == 'copy':
            lines.append("%s = copy_file(%r, extra_deps=%s)" % (v, 'f_' + name.replace('/', '_') + '.txt', d))
    if broken_at is not None and broken_at >= len(script):
        lines.append(BROKEN)
    # scripts with two or more file-producing steps name ALL of them as explicit defaults (every
    # one of them must stay a project of the solution); scripts with fewer leave the default set implicit
    filevars = [var[n] for n, k, d in script if k in ('build_step', 'copy')]
    if len(filevars) >= 2:
        lines.append('default(%s)' % ', '.join(filevars))
    return '\n'.join(lines) + '\n'


def project_name(name, kind):
    if kind == 'copy':
        return 'copy_file_tasks/f_' + name.replace('/', '_') + '.txt'
    return name


def successors(script):
    """All single edits of the script + the two 'no edit' runs."""
    have = {n: (k, d) for n, k, d in script}
    out = []

    def mk(h):
        return tuple((n, h[n][0], h[n][1]) for n in NAMES if n in h)
    for n in NAMES:
        if n not in have:
            for k in KINDS:
                h = dict(have)
                h[n] = (k, ())
                out.append(('add %s:%s' % (n, k), mk(h)))
        else:
            h = dict(have)
            del h[n]
            # removing a project also removes dependencies on it
            h = {m: (k, tuple(x for x in d if x != n)) for m, (k, d) in h.items()}
            out.append(('remove %s' % n, mk(h)))
            k, d = have[n]
            for k2 in KINDS:
                if k2 != k:
                    h = dict(have)
                    h[n] = (k2, d)
                    out.append(('retype %s:%s' % (n, k2), mk(h)))
            for m in NAMES[:NAMES.index(n)]:
                if m in have:
                    h = dict(have)
                    nd = tuple(x for x in d if x != m) if m in d else tuple(
                        x for x in NAMES if x in d or x == m)
                    h[n] = (k, nd)
                    out.append(('toggle-dep %s->%s' % (n, m), mk(h)))
    return out


GUID = r'\{[0-9A-F]{8}-[0-9A-F]{4}-[0-9A-F]{4}-[0-9A-F]{4}-[0-9A-F]{12}\}'


def parse_sln(text):
    """line grammar of the .sln writer; returns (projects, deps, problems)"""
    problems = []
    projects = []     # (name, path, guid, type_guid)
    deps = {}
    cur = None
    stack = []
    for ln, line in enumerate(text.split('\n')):
        s = line.strip('\t')
        if not s:
            continue
        m = re.match(r'^Project\("(%s)"\) = "([^"]*)", "([^"]*)", "(%s)"$' % (GUID, GUID), s)
        if m:
            cur = m.group(4)
            projects.append((m.group(2), m.group(3), m.group(4), m.group(1)))
            stack.append('Project')
            continue
        if s.startswith('Project('):
            problems.append('line %d: malformed Project line: %r' % (ln + 1, s))
            stack.append('Project')
            continue
        m = re.match(r'^(ProjectSection|GlobalSection)\((\w+)\) = (\w+)$', s)
        if m:
            stack.append(m.group(1))
            continue
        if s == 'Global':
            stack.append('Global')
            continue
        if s.startswith('End'):
            if not stack or stack[-1] != s[3:]:
                problems.append('line %d: unbalanced %s' % (ln + 1, s))
            else:
                stack.pop()
            if s == 'EndProject':
                cur = None
            continue
        if stack and stack[-1] == 'ProjectSection':
            m = re.match(r'^(%s) = (%s)$' % (GUID, GUID), s)
            if not m or m.group(1) != m.group(2):
                problems.append('line %d: malformed dependency: %r' % (ln + 1, s))
            else:
                deps.setdefault(cur, []).append(m.group(1))
            continue
    if stack:
        problems.append('unterminated sections: %r' % stack)
    return projects, deps, problems


def check_solution(bld, script):
    """Invariants on one generated solution. -> (problems, {project name: guid})"""
    problems = []
    try:
        text = open(os.path.join(bld, 'proj.sln')).read()
    except OSError:
        return ['no proj.sln written'], {}
    projects, deps, p = parse_sln(text)
    problems += p
    uu = json.load(open(os.path.join(bld, '.bfg_uuid')))['map']

    def fmt(h):
        h = h.upper()
        return '{%s-%s-%s-%s-%s}' % (h[:8], h[8:12], h[12:16], h[16:20], h[20:])
    guids = {}
    expect_names = sorted(project_name(n, k) for n, k, d in script)
    if sorted(p[0] for p in projects) != expect_names:
        problems.append('solution lists projects %r, script declares %r'
                        % (sorted(p[0] for p in projects), expect_names))
    for name, ppath, guid, tguid in projects:
        if name in guids:
            problems.append('project %s listed twice' % name)
        guids[name] = guid
        if name not in uu or fmt(uu[name]) != guid:
            problems.append('.bfg_uuid disagrees with .sln for %s' % name)
        f = os.path.join(bld, ppath)
        try:
            root = ET.parse(f).getroot()
        except (OSError, ET.ParseError) as e:
            problems.append('%s: not well-formed XML: %s' % (ppath, e))
            continue
        ns = '{http://schemas.microsoft.com/developer/msbuild/2003}'
        if root.tag != ns + 'Project':
            problems.append('%s: root element %s' % (ppath, root.tag))
        pg = [e.text for e in root.iter(ns + 'ProjectGuid')]
        if pg != [guid]:
            problems.append('%s: ProjectGuid %r != solution %r' % (ppath, pg, guid))
    allg = list(guids.values())
    if projects:
        allg.append(projects[0][3])
    if '' in uu and projects and fmt(uu['']) != projects[0][3]:
        problems.append('solution GUID differs from .bfg_uuid')
    if len(set(allg)) != len(allg):
        problems.append('GUIDs are not unique: %r' % sorted(guids.items()))
    known = set(guids.values())
    byname = {project_name(n, k): [project_name(x, dict((a, b) for a, b, c in script)[x])
                                   for x in d] for n, k, d in script}
    for name, guid in guids.items():
        dl = deps.get(guid, [])
        for g in dl:
            if g not in known:
                problems.append('%s depends on GUID %s which is not in the solution' % (name, g))
        want = sorted(guids.get(x, '?') for x in byname.get(name, []))
        if sorted(dl) != want:
            problems.append('%s: dependencies %r, script declares %r' % (name, sorted(dl), want))
    return problems, guids


def _hist_shard(arg):
    """Replay one history (list of (op, script, how)) on the real backend."""
    hist = arg
    d = os.path.join(core.worker_dir(), 'ms')
    shutil.rmtree(d, ignore_errors=True)
    src, bld = os.path.join(d, 'src'), os.path.join(d, 'bld')
    os.makedirs(src)
    for n in NAMES:
        open(os.path.join(src, 'f_' + n.replace('/', '_') + '.txt'), 'w').close()
    env = bfg.base_env()
    viol = []
    prev = {}
    trace = []
    first = True
    open(os.path.join(src, 'zz.c'), 'w').close()
    for op, script, how in hist:
        failing = op.startswith('fail@')
        with open(os.path.join(src, 'build.bfg'), 'w') as f:
            f.write(render(script, int(op[5:]) if failing else None))
        if first or how == 'configure':
            r = bfg.configure(src, bld, 'msbuild', env)
        else:
            r = bfg.regenerate(bld, env, inproc=True)
        first = False
        trace.append('%s/%s' % (op, how))
        if failing:
            if r.rc == 0:
                raise core.HarnessError('the broken step did not make the run fail')
            continue
        if r.rc != 0:
            viol.append(('run-failed', list(trace), r.err[-400:], hist))
            break
        problems, guids = check_solution(bld, script)
        for p in problems:
            viol.append(('malformed', list(trace), p, hist))
        for name, g in prev.items():
            if name in guids and guids[name] != g:
                viol.append(('guid-changed', list(trace),
                             'project %s: %s -> %s' % (name, g, guids[name]), hist))
        prev = guids
    shutil.rmtree(d, ignore_errors=True)
    return viol, len(hist)


def run(ctx):
    # ---------------- (a)
    args = arg_space(ctx.thorough)
    short = [a for a in args if len(a) <= (3 if ctx.thorough else 2) and set(a) <= set(QA)]
    lists = [(a,) for a in args] + [(a, b) for a in short for b in short]
    shards = core.chunks(core.seeded_order(lists, ctx.seed), 4000)
    res = core.pmap(_quote_shard, shards)
    n_lists = sum(r[1] for r in res)
    n_lines = sum(r[2] for r in res)
    qv = [v for r in res for v in r[0]]
    qv.sort(key=lambda v: (v[0], sum(len(a) for a in v[1]), len(v[1]), v[1]))
    seen = set()
    for law, a, line, got in qv:
        if law in seen:
            continue
        seen.add(law)
        ctx.violation('C20:%s:%s' % (law, json.dumps(a)),
                      'Windows quoting: %r joined as %r parses back as %r' % (a, line, got),
                      case=dict(args=a), expected=a, observed=got)
    # ---------------- (b) BFS over histories
    depth = 4 if ctx.thorough else 3
    init = ()
    # canonical state = (script, names known to .bfg_uuid); the uuid values themselves are
    # random but futures depend only on which names are mapped
    start = (init, frozenset(), None)
    seen_states = {start: []}
    frontier = [start]
    histories = []
    transitions = 0
    for dpt in range(depth):
        nxt = []
        for st in frontier:
            script, known, after_fail = st
            hist = seen_states[st]
            succ = successors(script) + [('keep', script)]
            if hist and after_fail is None:
                # a run that fails part-way through rule emission leaves the script (and what a
                # user expects of the GUIDs) unchanged
                succ += [('fail@%d' % k, script) for k in range(len(script) + 1)]
            for op, s2 in succ:
                for how in ('configure', 'regenerate'):
                    if not hist and how == 'regenerate':
                        continue
                    transitions += 1
                    h2 = hist + [(op, s2, how)]
                    histories.append(h2)
                    known2 = frozenset(project_name(n, k) for n, k, d in s2)
                    # a failed run is a state of its own: what it left behind in .bfg_uuid is
                    # only observable through the NEXT successful run
                    st2 = (s2, known if op.startswith('fail@') else known2,
                           op if op.startswith('fail@') else None)
                    if st2 not in seen_states:
                        seen_states[st2] = h2
                        nxt.append(st2)
        frontier = nxt
    # every transition is executed at least once: replay each history (prefixes re-executed on
    # fresh directories; a live solution cannot be copied)
    order = core.seeded_order(range(len(histories)), ctx.seed)
    res = core.pmap(_hist_shard, [histories[i] for i in order], chunksize=8)
    hv = [v for r in res for v in r[0]]
    hv.sort(key=lambda v: (v[0], len(v[1]), v[1]))
    seen = set()
    for law, trace, detail, fullhist in hv:
        sig = (law, re.sub(GUID, 'G', detail)[:50])
        if sig in seen:
            continue
        seen.add(sig)
        ctx.violation('C20:%s:%s' % (law, ' ; '.join(trace)),
                      'MSBuild solution after history %r: %s' % (trace, detail),
                      case=dict(history=trace, steps=fullhist[:len(trace)]), observed=detail)
    runs = sum(r[1] for r in res)
    if n_lists < 1000 or len(seen_states) < 20:
        raise core.HarnessError('vacuous C20 exploration')
    ctx.level = 'model_checking'
    ctx.cov.update(
        states=len(seen_states), transitions=transitions,
        traces_validated_against_impl=len(histories),
        samples=[dict(args=list(lists[len(lists) // 3]),
                      joined=__import__('bfg9000.shell.windows', fromlist=['x']).join(
                          list(lists[len(lists) // 3]))),
                 dict(history=[(o, h) for o, s, h in histories[len(histories) // 2]])],
        evaluations=n_lists + runs, distinct_nontrivial=n_lines,
        rule='(a) all argument strings over {a,space,TAB,",\\}^<=%d plus all 1-2 char strings over printable '
             'ASCII minus cmd.exe metacharacters, singly and in all ordered pairs of short strings: join -> '
             'MS CRT parse (pre- and post-2008 rules) and join -> split must return the arguments. '
             '(b) BFS to depth %d over histories of script edits (add/remove/retype project of 4 kinds, toggle '
             'dependency) x {configure, regenerate} on the real msbuild backend; state = (script, names in '
             '.bfg_uuid)' % (6 if ctx.thorough else 5, depth),
        exhaustive=True, quoting_cases=n_lists, distinct_command_lines=n_lines,
        backend_runs=runs, history_depth=depth)
    ctx.assumptions += [
        'models/msvcrt_argv.py implements the documented CRT rules (checked against Microsoft\'s examples)',
        'cmd.exe metacharacters % ^ & < > | are outside the domain, as the source documents',
        'VC++ projects need MSVC and are out of reach on Linux: only command/build_step/alias/copy_file projects']


def replay(rec):
    case = rec['case']
    if 'args' in case:
        v, _, _ = _quote_shard([tuple(case['args'])])
        print(v)
        return not v
    steps = [(op, tuple((n, k, tuple(d)) for n, k, d in script), how)
             for op, script, how in case['steps']]
    v, _ = _hist_shard(steps)
    for x in v:
        print(x[0], x[1], x[2])
    return not v
