"""C05 — distinct inputs never collide on one output path; outputs stay inside builddir;
would-be collisions are configure-time errors.

Shape A.  All source paths over a component alphabet x target kinds x settings are mapped to
their implicit output path by the real configure (read back from compile_commands.json);
injectivity over ALL pairs is decided by a dictionary build; every candidate is confirmed by
configuring the colliding pair in one target.  Containment is checked statically on every
output and dynamically by snapshotting the source tree around configure/build/clean/dist.
"""
import hashlib
import itertools
import json
import os
import posixpath
import shutil

from kernel import core, bfg

NAMES = ['a', 'b', 'ab', 'cd', 'xy', 'abc', 'a.b', '.a', 'a.b.c', 's', 'sub', 'subs']   # 'subs': a sibling of the submodule directory 'sub' whose name extends it
EXTS = ['.c', '.cpp']


def path_space(thorough):
    dirs = ['']
    for n in (1, 2):
        for t in itertools.product(NAMES, repeat=n):
            dirs.append('/'.join(t) + '/')
    out = []
    for d in dirs:
        for stem in NAMES:
            for e in EXTS:
                out.append(d + stem + e)
    if thorough:
        chars = 'abcdefghijklmnopqrstuvwxyz0123456789._-'
        comps = [c for c in chars] + [a + b for a in chars for b in chars]
        comps = [c for c in comps if c.strip('.') != '' and not c.startswith('-')]
        seen = set(out)
        for c in comps:
            for p in (c + '/x.c', 'q/' + c + '/x.c', c + '.c', 'q/' + c + '.c'):
                if p not in seen:
                    seen.add(p)
                    out.append(p)
    return out


def key_of(p):
    d, leaf = posixpath.split(p)
    stem = leaf[:leaf.rindex('.')] if '.' in leaf[1:] else leaf
    # the stem is what remains after removing the final extension
    stem = posixpath.splitext(leaf)[0]
    return (d, stem)


KINDS = {
    # kind: (script line for item i with path p, prefix to strip, in submodule?)
    'executable': lambda i, p: ("executable('t%d', [%r])" % (i, p), 't%d.int/' % i),
    'static_library': lambda i, p: ("static_library('t%d', [%r])" % (i, p), 'libt%d.int/' % i),
    'shared_library': lambda i, p: ("shared_library('t%d', [%r])" % (i, p), 'libt%d.int/' % i),
    'object_files_dir': lambda i, p: ("object_files([%r], directory='d%d')" % (p, i), 'd%d/' % i),
    'copy_files_dir': lambda i, p: ("copy_files([%r], directory='d%d')" % (p, i), 'd%d/' % i),
}


def run_project(root, files, script, subscript=None, backend='make', inproc=True, build=None):
    shutil.rmtree(root, ignore_errors=True)
    src, bld = os.path.join(root, 'src'), os.path.join(root, 'bld')
    tree = {f: '' for f in files}
    tree['build.bfg'] = script
    if subscript is not None:
        tree['sub/build.bfg'] = subscript
    bfg.write_tree(src, tree)
    stub = bfg.make_stubbin(os.path.join(root, 'bin'))
    env = bfg.base_env(stub)
    r = bfg.configure(src, bld, backend, env, inproc=inproc)
    return r, src, bld, env


def outputs_of(bld, src):
    try:
        db = json.load(open(os.path.join(bld, 'compile_commands.json')))
    except OSError:
        return []
    return [(e['file'], e.get('output')) for e in db
            if e['file'].startswith(src + '/')]


def _map_shard(arg):
    """-> [(kind, where, path, relative output or None)], evaluations"""
    kind, where, paths = arg
    root = os.path.join(core.worker_dir(), 'c05')
    gen = KINDS[kind]
    res = []
    for batch in core.chunks(paths, 120):
        lines, prefixes = [], []
        for i, p in enumerate(batch):
            ref = p if where == 'root' else '../' + p
            line, pre = gen(i, ref)
            lines.append(line)
            prefixes.append(pre if where == 'root' else 'sub/' + pre)
        if where == 'root':
            r, src, bld, env = run_project(root, batch, '\n'.join(lines) + '\n')
        else:
            r, src, bld, env = run_project(root, batch, "submodule('sub')\n",
                                           '\n'.join(lines) + '\n')
        if r.rc != 0:
            raise core.HarnessError('mapping project failed to configure (%s/%s): %s'
                                    % (kind, where, r.err[-500:]))
        outs = outputs_of(bld, src)
        if len(outs) != len(batch):
            raise core.HarnessError('expected %d compile/copy entries, got %d' % (len(batch), len(outs)))
        for (f, o), p, pre in zip(outs, batch, prefixes):
            if f != os.path.join(src, p):
                raise core.HarnessError('entry order mismatch: %s vs %s' % (f, p))
            res.append((kind, where, p, o, pre))
    shutil.rmtree(root, ignore_errors=True)
    return res


def _noint_shard(paths):
    root = os.path.join(core.worker_dir(), 'c05n')
    res = []
    for p in paths:
        r, src, bld, env = run_project(
            root, [p], "project('p', intermediate_dirs=False)\nexecutable('t', [%r])\n" % p)
        if r.rc != 0:
            raise core.HarnessError('noint project failed: ' + r.err[-300:])
        outs = outputs_of(bld, src)
        res.append(('executable_nointdir', 'root', p, outs[0][1], ''))
    shutil.rmtree(root, ignore_errors=True)
    return res


def pair_script(kind, where, p, q):
    ref = (lambda x: x) if where == 'root' else (lambda x: '../' + x)
    if kind == 'executable_nointdir':
        return "project('p', intermediate_dirs=False)\nexecutable('t', [%r, %r])\n" % (p, q)
    if kind in ('executable', 'static_library', 'shared_library'):
        return "%s('t', [%r, %r])\n" % (kind, ref(p), ref(q))
    if kind == 'object_files_dir':
        return "object_files([%r, %r], directory='d')\n" % (ref(p), ref(q))
    return "copy_files([%r, %r], directory='d')\n" % (ref(p), ref(q))


def confirm_pair(kind, where, p, q, inproc=True):
    """Configure one target holding both sources.  -> (ok, detail); ok = two distinct outputs"""
    root = os.path.join(core.worker_dir(), 'c05p')
    s = pair_script(kind, where, p, q)
    if where == 'root':
        r, src, bld, env = run_project(root, [p, q], s, inproc=inproc)
    else:
        r, src, bld, env = run_project(root, [p, q], "submodule('sub')\n", s, inproc=inproc)
    if r.rc != 0:
        detail = 'configure fails: ' + r.err.strip().splitlines()[-1][:200] if r.err.strip() else 'rc=%d' % r.rc
        ok = False
    else:
        outs = [o for f, o in outputs_of(bld, src)]
        ok = len(set(outs)) == 2
        detail = 'outputs %r' % outs
    shutil.rmtree(root, ignore_errors=True)
    return ok, detail


COLLIDING = [
    ('same-stem-different-extension', ['a.c', 'a.cpp'], "executable('t', ['a.c', 'a.cpp'])\n"),
    ('same-stem-different-extension-in-dir', ['x/a.c', 'x/a.cpp'],
     "object_files(['x/a.c', 'x/a.cpp'], directory='d')\n"),
    ('executable-named-twice', ['a.c', 'b.c'], "executable('t', ['a.c'])\nexecutable('t', ['b.c'])\n"),
    ('object-named-twice', ['a.c', 'b.c'],
     "object_file('o', file='a.c')\nobject_file('o', file='b.c')\n"),
    ('copy-twice', ['a.txt'], "copy_file('a.txt')\ncopy_file('a.txt')\n"),
    ('copy-vs-build_step', ['a.txt'],
     "copy_file('a.txt')\nbuild_step('a.txt', cmd=['touch', build_step.output])\n"),
    ('build_step-twice', [], "build_step('o.txt', cmd=['touch', 'o.txt'])\n"
                             "build_step('o.txt', cmd=['touch', 'o.txt'])\n"),
    ('build_step-multi-overlap', [], "build_step(['o1', 'o2'], cmd=['touch', 'o1', 'o2'])\n"
                                     "build_step(['o2', 'o3'], cmd=['touch', 'o2', 'o3'])\n"),
    ('executable-vs-build_step', ['a.c'],
     "executable('t', ['a.c'])\nbuild_step('t', cmd=['touch', 't'])\n"),
    ('static-lib-twice', ['a.c', 'b.c'],
     "static_library('t', ['a.c'])\nstatic_library('t', ['b.c'])\n"),
    ('copy-into-same-name', ['x/a.txt', 'y/a.txt'],
     "copy_file('o.txt', 'x/a.txt')\ncopy_file('o.txt', 'y/a.txt')\n"),
    ('submodule-and-root-same-output', ['a.c', 'sub/b.c'], None),
]
# the second claimant of a path is a phony target (alias, command, the aggregate `tests` target)
COLLIDING += [
    ('alias-after-executable', ['a.c'], "e = executable('t', ['a.c'])\nalias('t', [e])\n"),
    ('alias-after-copy', ['a.txt'], "c = copy_file('share/data', 'a.txt')\nalias('share/data', [c])\n"),
    ('alias-twice', ['a.c'], "e = executable('p', ['a.c'])\nalias('t', [e])\nalias('t', [e])\n"),
    ('command-after-executable', ['a.c'], "executable('t', ['a.c'])\ncommand('t', cmd=['true'])\n"),
    ('executable-named-tests-with-test', ['a.c'], "e = executable('tests', ['a.c'])\ntest(e)\n"),
    ('executable-after-alias', ['a.c', 'b.c'], "e = executable('p', ['a.c'])\nalias('t', [e])\nexecutable('t', ['b.c'])\n"),
]
# every position of a three-output step against a later / an earlier single- or two-output step
for _pos in range(3):
    _multi = "build_step(['m1', 'm2', 'm3'], cmd=['touch', 'm1', 'm2', 'm3'])\n"
    _n = 'm%d' % (_pos + 1)
    _one = "build_step(%r, cmd=['touch', %r])\n" % (_n, _n)
    _two = "build_step(['other', %r], cmd=['touch', 'other', %r])\n" % (_n, _n)
    COLLIDING += [('multi-output-%d-then-single' % _pos, [], _multi + _one),
                  ('single-then-multi-output-%d' % _pos, [], _one + _multi),
                  ('multi-output-%d-then-two' % _pos, [], _multi + _two),
                  ('two-then-multi-output-%d' % _pos, [], _two + _multi)]


def tree_snapshot(root):
    out = {}
    for base, dirs, files in os.walk(root):
        dirs.sort()
        for n in sorted(files) + dirs:
            p = os.path.join(base, n)
            st = os.lstat(p)
            h = ''
            if os.path.isfile(p) and not os.path.islink(p):
                h = hashlib.sha1(open(p, 'rb').read()).hexdigest()
            out[os.path.relpath(p, root)] = (st.st_mode, st.st_size, st.st_mtime_ns, h)
    return out


CONTAIN_SCRIPTS = [
    ("executable('prog', ['main.c', 'x/y/a.c'])\ncopy_files(['x/d.txt'], directory='out')\n"
     "generated = build_step('g.txt', cmd=['touch', build_step.output], files=['x/d.txt'])\n"
     "default(generated)\ninstall(executable('p2', ['main.c']))\nsubmodule('sub')\n",
     "static_library('s', ['../x/y/a.c', 's.c'])\ncopy_file('../x/d.txt')\n"),
]


def _contain_shard(arg):
    backend, idx = arg
    script, sub = CONTAIN_SCRIPTS[idx]
    root = os.path.join(core.worker_dir(), 'c05c')
    files = ['main.c', 'x/y/a.c', 'x/d.txt', 'sub/s.c']
    r, src, bld, env = run_project(root, files, script, sub, backend=backend)
    viol = []
    if r.rc != 0:
        raise core.HarnessError('containment project failed: ' + r.err[-400:])
    # make every source file old so that any rewrite is visible
    for base, dirs, fs in os.walk(src):
        for n in fs + dirs:
            os.utime(os.path.join(base, n), (1000000000, 1000000000))
    os.utime(src, (1000000000, 1000000000))
    snap = tree_snapshot(src)
    steps = [('configure', None)]
    steps += [('build', ['all']), ('regenerate', None), ('build', ['all']), ('dist', ['dist']),
              ('clean', ['clean']), ('build', ['all'])]
    n = 0
    for name, targets in steps:
        n += 1
        if name == 'regenerate':
            rr = bfg.regenerate(bld, env, inproc=True)
            rc, out = rr.rc, rr.err
        elif targets is not None:
            rc, out = bfg.build(backend, bld, targets, env)
        else:
            rc, out = 0, ''
        if rc != 0 and name != 'dist':
            raise core.HarnessError('%s %s failed: %s' % (backend, name, out[-400:]))
        now = tree_snapshot(src)
        if now != snap:
            changed = sorted(k for k in set(now) | set(snap) if now.get(k) != snap.get(k))
            viol.append(('source-tree-changed', '%s after %s' % (backend, name), repr(changed[:6])))
            snap = now
    shutil.rmtree(root, ignore_errors=True)
    return viol, n


TARGET_NAMES = ['n', 'n.a', 'n.b', 'n.a.b', 'n-1.0', 'n-1.1', 'd/n.a', 'd/n.b']
TARGET_KINDS = ['executable', 'static_library', 'shared_library', 'library']


def _tname_shard(arg):
    """two targets with DISTINCT names built from the SAME source: a valid project, whose two
    compile steps must be given distinct object paths"""
    backend, kind, pairs = arg
    root = os.path.join(core.worker_dir(), 'c05t')
    viol = []
    n = 0
    for a, b in pairs:
        script = "%s(%r, ['src/m.c'])\n%s(%r, ['src/m.c'], compile_options=['-DOTHER'])\n" % (kind, a, kind, b)
        r, src, bld, env = run_project(root, ['src/m.c'], script, backend=backend)
        n += 1
        label = '%s:%s:%s|%s' % (backend, kind, a, b)
        if r.rc != 0:
            viol.append(('distinct-targets-collide', label,
                         'configure rejects two targets with different names built from the same source: %s'
                         % (r.err.strip().splitlines()[-1][:200] if r.err.strip() else '')))
            continue
        outs = [o for f, o in outputs_of(bld, src) if f.endswith('/src/m.c')]
        per = 2 if kind != 'library' else 2      # (library(): one object set per target in default mode)
        if len(set(outs)) < per:
            viol.append(('distinct-targets-collide', label, 'objects of the two targets: %r' % outs))
    shutil.rmtree(root, ignore_errors=True)
    return viol, n


def _collide_shard(arg):
    backend, idx = arg
    name, files, script = COLLIDING[idx]
    root = os.path.join(core.worker_dir(), 'c05x')
    if script is None:
        r, src, bld, env = run_project(root, files, "executable('sub/t', ['a.c'])\nsubmodule('sub')\n",
                                       "executable('t', ['b.c'])\n", backend=backend)
    else:
        r, src, bld, env = run_project(root, files, script, backend=backend)
    bf = os.path.join(bld, 'Makefile' if backend == 'make' else 'build.ninja')
    viol = []
    if r.rc == 0:
        viol.append(('collision-not-rejected', '%s:%s' % (backend, name),
                     'configure exits 0 for a script whose steps write the same path'))
    elif os.path.exists(bf):
        viol.append(('collision-build-file-written', '%s:%s' % (backend, name),
                     'configure failed but left %s' % os.path.basename(bf)))
    shutil.rmtree(root, ignore_errors=True)
    return viol


def run(ctx):
    paths = path_space(ctx.thorough)
    small = [p for p in paths if p.count('/') <= 1][:400]
    shards = []
    for kind in KINDS:
        dom = paths if kind in ('executable', 'object_files_dir', 'copy_files_dir') else small
        for where in ('root', 'sub'):
            per = max(120, (len(dom) + core.NCPU - 1) // core.NCPU)
            for ch in core.chunks(dom, per):
                shards.append(('map', (kind, where, ch)))
    for ch in core.chunks(small, max(8, len(small) // core.NCPU)):
        shards.append(('noint', ch))
    for b in ('make', 'ninja'):
        for i in range(len(COLLIDING)):
            shards.append(('collide', (b, i)))
        for i in range(len(CONTAIN_SCRIPTS)):
            shards.append(('contain', (b, i)))
        for kind in TARGET_KINDS:
            shards.append(('tname', (b, kind, list(itertools.combinations(TARGET_NAMES, 2)))))
    order = core.seeded_order(range(len(shards)), ctx.seed)
    res = core.pmap(_dispatch, [shards[i] for i in order])
    res = [r for _, r in sorted(zip(order, res), key=lambda t: t[0])]
    mapping = []
    evals = 0
    cviol = []
    for (k, a), r in zip(shards, res):
        if k in ('map', 'noint'):
            mapping.extend(r)
        elif k == 'collide':
            evals += 1
            cviol.extend(r)
        else:
            evals += r[1]
            cviol.extend(r[0])
    # (a) injectivity over all pairs, (b) static containment
    groups = {}
    pairs_decided = 0
    outs_distinct = set()
    for kind, where, p, o, pre in mapping:
        evals += 1
        if o is None:
            raise core.HarnessError('no output recorded for %s' % p)
        norm = posixpath.normpath(o)
        if norm.startswith('/') or norm == '..' or norm.startswith('../'):
            ctx.violation('C05:escape:%s:%s:%s' % (kind, where, p),
                          'implicit output of %s (%s, %s) is outside the build directory: %s'
                          % (p, kind, where, o), case=dict(kind=kind, where=where, path=p),
                          observed=o)
        rel = o[len(pre):] if o.startswith(pre) else o
        outs_distinct.add((kind, where, rel))
        groups.setdefault((kind, where), {}).setdefault(rel, []).append(p)
    for (kind, where), g in sorted(groups.items()):
        n = sum(len(v) for v in g.values())
        pairs_decided += n * (n - 1) // 2
        cands = []
        for rel, ps in g.items():
            keys = {}
            for p in ps:
                keys.setdefault(key_of(p), []).append(p)
            if len(keys) > 1:
                reps = sorted((min(v, key=lambda x: (len(x), x)) for v in keys.values()),
                              key=lambda x: (len(x), x))
                cands.append((reps[0], reps[1], rel))
        cands.sort(key=lambda t: (len(t[0]) + len(t[1]), t[0], t[1]))
        if cands:
            p, q, rel = cands[0]
            ok, detail = confirm_pair(kind, where, p, q)
            ok2, detail2 = confirm_pair(kind, where, p, q, inproc=False)
            if ok or ok2:
                raise core.HarnessError('collision %s/%s not confirmed for the pair: %s / %s'
                                        % (p, q, detail, detail2))
            ctx.violation('C05:collide:%s:%s:%s|%s' % (kind, where, p, q),
                          '%s (%s script): distinct sources %s and %s are both given the output %s '
                          '(%d such output paths in the explored set); %s'
                          % (kind, where, p, q, rel, len(cands), detail2),
                          case=dict(kind=kind, where=where, pair=[p, q]), observed=detail2)
    seen = set()
    for law, label, detail in sorted(cviol):
        if (law, label) in seen:
            continue
        seen.add((law, label))
        ctx.violation('C05:%s:%s' % (law, label), '%s: %s' % (label, detail),
                      case=dict(label=label), observed=detail)
    if len(mapping) < 500:
        raise core.HarnessError('vacuous C05 exploration')
    ctx.level = 'exploration'
    ctx.cov.update(
        evaluations=evals, distinct_nontrivial=len(outs_distinct),
        rule='every source path of 1-3 components over %r x {.c,.cpp}%s, as the source of every target kind '
             '(%s, executable with intermediate_dirs=False) from the root script and from a submodule via ../, is '
             'mapped to its implicit output by the real configure; injectivity on (directory, stem) decided for all '
             'pairs by dictionary; %d must-collide scripts x 2 backends must be rejected without a build file; source '
             'tree snapshots around configure/build/regenerate/dist/clean. distinct = distinct (kind, output) pairs'
             % (NAMES, ' plus every 1-2 character component over [a-z0-9._-]' if ctx.thorough else '',
                ', '.join(KINDS), len(COLLIDING)),
        samples=[dict(kind=m[0], where=m[1], source=m[2], output=m[3]) for m in mapping[::max(1, len(mapping) // 6)]][:6],
        exhaustive=True, paths=len(paths), mappings=len(mapping), pairs_decided=pairs_decided,
        states=len(outs_distinct), transitions=evals, traces_validated_against_impl=evals)
    ctx.assumptions += ['the literal component name PAR is excluded, as the property says',
                        'generated_source needs lex/yacc stubs and is not part of the kinds explored',
                        'a source\'s implicit output does not depend on its siblings (every candidate is '
                        'nevertheless confirmed by configuring the pair together)']


def _dispatch(sh):
    k, a = sh
    return {'map': _map_shard, 'noint': _noint_shard, 'collide': _collide_shard,
            'contain': _contain_shard, 'tname': _tname_shard}[k](a)


def replay(rec):
    case = rec['case']
    if 'pair' in case:
        ok, detail = confirm_pair(case['kind'], case['where'], case['pair'][0], case['pair'][1],
                                  inproc=False)
        print(case, '->', detail)
        return ok
    print(json.dumps(rec, indent=1)[:2000])
    ctx = core.Ctx('C05', rec.get('tier', 'quick'), 0)
    run(ctx)
    return rec['key'] not in ctx._viol
