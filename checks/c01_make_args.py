"""C01 — Make backend: every argument reaches the spawned process unchanged."""
from kernel import core
from checks import argcommon as A

BACKEND = 'make'


def run(ctx):
    strings = A.string_space(ctx.thorough)
    small = A.small_space()
    positions = list(A.POSITIONS) + [A.IncludeDir(), A.FileInCommand()]
    for p in positions:
        A.POS[p.name] = p
    r = A.run_positions(ctx, BACKEND, positions, strings, small)
    if r['total'] < 1000 or r['distinct'] < 500:
        raise core.HarnessError('vacuous exploration: %r' % r)
    ctx.level = 'exploration'
    ctx.cov.update(
        evaluations=r['total'], distinct_nontrivial=r['distinct'],
        rule=('every string of Sigma_full^1, %s, Sigma_q^<=%d%s placed in each of %d argument '
              'positions of a generated build.bfg; configured in-process (Make backend), run by '
              'the real GNU make + /bin/sh against a recording stub toolchain; oracle = identity '
              'on recorded argv/environ. distinct = distinct strings delivered'
              % ('Sigma_full^2' if ctx.thorough else 'Sigma_cls^2', 6 if ctx.thorough else 4,
                 ', Sigma_cls^3' if ctx.thorough else '', len(positions))),
        samples=[dict(position=p, placements=n) for p, n in sorted(r['perpos'].items())][:20],
        exhaustive=True, states=r['distinct'], transitions=r['evals'],
        traces_validated_against_impl=r['total'],
        placements_per_position=r['perpos'], excluded_at_runtime=r['excluded'],
        failing_placements=r['failing'], tool_runs=r['evals'])
    ctx.assumptions += [
        'stub toolchain records argv/environ exactly (C program, NUL-safe)',
        'command_word: strings /bin/sh itself classifies (command -v) as builtins/reserved words, '
        'or that cannot name an executable, are excluded at run time',
        'equal-length, non-ASCII beyond 3 representative code points not enumerated']


def replay(rec):
    return A.replay_case(rec)
