"""C07 — real-toolchain builds are incremental and survive header changes.

Shape C (explicit-state history exploration) with the REAL gcc (through a logging wrapper), the
real make / refninja and the real bfg9000-depfixer.  A tiny generated C project whose program
output is a function of its file contents; headers are named with spaces and Make-special
characters.  BFS over edit histories (modify header / source, add a header, drop an include and
delete the header, rename a header, clean) from the built state and every reached state; after
each edit: build succeeds, the set of compiler invocations equals exactly the translation units
whose include closure (computed by a reference scanner on the model) contains a changed file, the
program prints the model's values, an immediate rebuild compiles nothing.
"""
import json
import os
import re
import shutil
import stat
import subprocess

from kernel import core, bfg, proj
from checks import c04_file_names as c04

CLASSES = {
    'plain': lambda b: b + '.h',
    'space': lambda b: b + ' x.h',
    'hash': lambda b: b + '#x.h',
    'dollar': lambda b: b + '$x.h',
    'percent': lambda b: b + '%x.h',
    'tilde': lambda b: '~' + b + '.h',
    'colon-paren': lambda b: b + ':(x).h',
    # plain header names, but OBJECT paths with special characters (the depfile's target side):
    'obj-space': lambda b: b + '.h',
    'obj-dollar-hash': lambda b: b + '.h',
    # a precompiled header (which itself includes another header) used by every translation unit
    'pch': lambda b: b + '.h',
}
# class -> (executable name, path of util.c): objects are <exe>.int/main.o and <exe>.int/<dir>/util.o
LAYOUT = {'obj-space': ('my prog', 'sub dir/util.c'), 'obj-dollar-hash': ('pr$g', 's#b/util.c')}


class Model:
    def __init__(self, cls):
        self.h = CLASSES[cls]
        self.exe, self.util = LAYOUT.get(cls, ('prog', 'util.c'))
        self.pch = cls == 'pch'
        up = '../' * self.util.count('/')
        self.files = {}
        self.vals = {}
        self.n_added = 0
        a, b, c = self.h('a'), self.h('b'), self.h('c')
        self.files[c] = '#define VC 3\n'
        self.files[a] = '#include "%s"\n#define VA 1\n' % c
        self.files[b] = '#define VB 2\n'
        self.files[self.util] = ('#include "%s"\n#include "%s"\nint util(void) { return VB * 100 + VA + 0; }\n'
                                 % (up + a, up + b))
        self.files['main.c'] = ('#include <stdio.h>\n#include "%s"\nint util(void);\n'
                                'int main(void) { printf("%%d %%d %%d\\n", VA, VC, util()); return 0 + 0; }\n' % a)
        self.files['build.bfg'] = "executable(%r, ['main.c', %r])\n" % (self.exe, self.util)
        if self.pch:
            self.files['pre.h'] = '#include "p.h"\n#define VP 5\n'
            self.files['p.h'] = '#define VQ 6\n'
            self.files['main.c'] = self.files['main.c'].replace('printf("%d %d %d\\n", VA, VC, util())',
                                                                'printf("%d %d %d %d\\n", VA, VC, util(), VP * 10 + VQ)')
            self.files['build.bfg'] = ("pch = precompiled_header(file='pre.h')\n"
                                       "executable('prog', ['main.c', 'util.c'], pch=pch)\n")

    def clone(self):
        m = Model.__new__(Model)
        m.h = self.h
        m.exe, m.util = self.exe, self.util
        m.pch = self.pch
        m.files = dict(self.files)
        m.n_added = self.n_added
        return m

    def key(self):
        return tuple(sorted(self.files.items()))

    def headers(self):
        return sorted(f for f in self.files if f.endswith('.h'))

    def closure(self, tu):
        """reference include scanner: transitive closure of #include "..." from the model"""
        seen = set()
        todo = [tu] + (['pre.h'] if self.pch and tu.endswith('.c') else [])
        while todo:
            f = todo.pop()
            if f in seen or f not in self.files:
                continue
            seen.add(f)
            todo += [os.path.normpath(os.path.join(os.path.dirname(f), i))
                     for i in re.findall(r'#include "([^"]+)"', self.files[f])]
        return seen

    def tu(self, base):
        return self.util if base == 'util.c' else base

    def expected_output(self):
        """evaluate the macros by the reference (no compiler)"""
        macros = {}
        for f in self.closure('main.c') | self.closure(self.util):
            for m in re.finditer(r'#define (\w+) (\d+)', self.files[f]):
                macros[m.group(1)] = int(m.group(2))
        extra = sum(int(x) for x in re.findall(r'#define X\d+ (\d+)', '\n'.join(self.files.values())))
        um = re.search(r'return VB \* 100 \+ VA \+ (\d+);', self.files[self.util])
        um2 = re.search(r'return (\d+) \* 100 \+ VA \+ (\d+);', self.files[self.util])
        if um:
            util = macros['VB'] * 100 + macros['VA'] + int(um.group(1))
        else:
            util = int(um2.group(1)) * 100 + macros['VA'] + int(um2.group(2))
        mm = re.search(r'return (\d+) \+ (\d+);', self.files['main.c'])
        out = '%d %d %d' % (macros['VA'], macros['VC'], util)
        if self.pch:
            out += ' %d' % (macros['VP'] * 10 + macros['VQ'])
        return out, int(mm.group(1)) + int(mm.group(2))


def bump(text, pat):
    m = re.search(pat, text)
    return text[:m.start(1)] + str(int(m.group(1)) + 1) + text[m.end(1):]


def operations(m):
    """-> list of (name, changed files (for the closure rule), function(model))"""
    ops = []
    for hname in m.headers():
        def f(mm, hname=hname):
            mm.files[hname] = bump(mm.files[hname], r'#define \w+ (\d+)')
        ops.append(('modify ' + hname, [hname], f))
    for sname, pat in (('main.c', r'return 0 \+ (\d+);'), (m.util, r'\+ VA \+ (\d+);')):
        def f(mm, sname=sname, pat=pat):
            mm.files[sname] = bump(mm.files[sname], pat)
        ops.append(('modify ' + sname, [sname], f))
    if m.n_added < 2:
        def add(mm):
            mm.n_added += 1
            n = mm.h('n%d' % mm.n_added)
            mm.files[n] = '#define X%d 0\n' % mm.n_added
            mm.files['main.c'] = '#include "%s"\n' % n + mm.files['main.c']
        ops.append(('add-header', ['main.c'], add))
    b = m.h('b')
    if b in m.files:
        def drop(mm):
            val = re.search(r'#define VB (\d+)', mm.files[b]).group(1)
            up = '../' * mm.util.count('/')
            mm.files[mm.util] = mm.files[mm.util].replace('#include "%s"\n' % (up + b), '').replace(
                'return VB *', 'return %s *' % val)
            del mm.files[b]
        ops.append(('drop-include-and-delete ' + b, [m.util], drop))
    c = m.h('c')
    if c in m.files:
        def ren(mm):
            c2 = mm.h('c2')
            mm.files[c2] = mm.files.pop(c)
            a = mm.h('a')
            mm.files[a] = mm.files[a].replace('#include "%s"' % c, '#include "%s"' % c2)
        ops.append(('rename ' + c, [m.h('a')], ren))
    if m.util == 'util.c' and m.exe == 'prog' and not m.pch:
        # the source of an object is renamed while the object keeps its path (the stale depfile
        # still names the old source)
        def rensrc(mm):
            mm.files['utilr.c'] = mm.files.pop('util.c')
            mm.util = 'utilr.c'
            mm.files['build.bfg'] = ("executable('prog', ['main.c', object_file('prog.int/util', "
                                     "file='utilr.c')])\n")
        ops.append(('rename-source util.c', ['util.c', 'utilr.c'], rensrc))
    ops.append(('clean', None, None))
    return ops


def write_model(src, old, new):
    for f in old.files:
        if f not in new.files:
            os.remove(os.path.join(src, f))
    for f, content in new.files.items():
        if old.files.get(f) != content:
            os.makedirs(os.path.dirname(os.path.join(src, f)), exist_ok=True)
            with open(os.path.join(src, f), 'w') as fh:
                fh.write(content)


def compiles(cclog):
    """translation units compiled, from the wrapper log"""
    out = []
    if not os.path.exists(cclog):
        return out
    for line in open(cclog, errors='replace'):
        argv = line.rstrip('\n').split('\x1f')
        if '-c' in argv:
            for a in argv:
                if os.path.basename(a) in ('main.c', 'util.c', 'utilr.c'):
                    out.append('util.c' if os.path.basename(a) == 'utilr.c' else os.path.basename(a))
    return sorted(out)


gcc_depfile_roundtrip = c04.gcc_depfile_roundtrip


def _explore(arg):
    cls, backend, depth = arg
    root = os.path.join(core.worker_dir(), 'c07')
    shutil.rmtree(root, ignore_errors=True)
    os.makedirs(root)
    m0 = Model(cls)
    # rule 3: is every header name of this class expressible for this backend at all?
    env0 = bfg.base_env()
    if backend == 'make':
        for hname in m0.headers() + [m0.h('n1'), m0.h('c2')]:
            if c04.slot_witness('prereq', 'S/' + hname, hname, root, env0) is None or \
                    c04.slot_witness('target', hname + '.tgt', hname, root, env0) is None:
                return cls, backend, [], 0, 0, 'excluded: no reference Makefile can name %r' % hname
        for obj in ('%s.int/main.o' % m0.exe, '%s.int/%s.o' % (m0.exe, m0.util[:-2])):
            if obj == 'prog.int/main.o' or obj == 'prog.int/util.o':
                continue
            enc = c04.slot_witness('target', obj, obj, root, env0)
            if enc is None or not gcc_depfile_roundtrip('plain.h', root, env0, obj, enc):
                return cls, backend, [], 0, 0, ('excluded: no hand-written Makefile + gcc depfile can name the '
                                               'object %r' % obj)
        for hname in m0.headers():
            if not gcc_depfile_roundtrip(hname, root, env0):
                return cls, backend, [], 0, 0, ('excluded: a depfile written by gcc itself for %r is not '
                                               'usable by make (hand-written reference, no bfg9000)' % hname)
    cclog = os.path.join(root, 'cc.log')
    wrap = os.path.join(root, 'ccwrap')
    with open(wrap, 'w') as f:
        f.write('#!/bin/sh\n{ printf \'%%s\\037\' "$@"; echo; } >> %s\nexec /usr/bin/gcc "$@"\n' % cclog)
    os.chmod(wrap, 0o755)
    src, bld = os.path.join(root, 'p', 'src'), os.path.join(root, 'p', 'bld')
    os.makedirs(src)
    write_model(src, _empty(), m0)
    stub = bfg.make_stubbin(os.path.join(root, 'bin'), names=[], extra=[])
    env = bfg.base_env(stub, extra={'CC': wrap})
    r = bfg.configure(src, bld, backend, env)
    if r.rc != 0:
        raise core.HarnessError('configure failed (%s/%s): %s' % (cls, backend, r.err[-300:]))
    viol = []

    def build(label, expect_tus, model):
        if os.path.exists(cclog):
            os.remove(cclog)
        rc, out = bfg.build(backend, bld, [], env, timeout=60)
        got = compiles(cclog)
        if rc != 0:
            viol.append(('build-fails', label, out[-300:]))
            return False
        if expect_tus is not None and got != sorted(expect_tus):
            viol.append(('compile-set', label, 'compiled %r, expected exactly %r' % (got, sorted(expect_tus))))
        p = subprocess.run([os.path.join(bld, model.exe)], stdout=subprocess.PIPE, text=True)
        want_out, want_rc = model.expected_output()
        if p.stdout.strip() != want_out or p.returncode != want_rc:
            viol.append(('program-output', label, 'prog printed %r (exit %d), the sources say %r (exit %d)'
                         % (p.stdout.strip(), p.returncode, want_out, want_rc)))
        os.remove(cclog) if os.path.exists(cclog) else None
        rc2, out2 = bfg.build(backend, bld, [], env, timeout=60)
        again = compiles(cclog)
        if rc2 != 0 or again:
            viol.append(('rebuild-not-noop', label, 'an immediate second build compiled %r (rc=%d)' % (again, rc2)))
        return True
    build('(initial)', ['main.c', 'util.c'], m0)
    snaps = os.path.join(root, 'snaps')
    os.makedirs(snaps)
    proj.snapshot(os.path.join(root, 'p'), os.path.join(snaps, '0'))
    seen = {m0.key()}
    frontier = [(m0, [], '0')]
    states, transitions, nsnap = 1, 0, 0
    for lvl in range(depth):
        nxt = []
        for model, hist, snap in frontier:
            for name, changed, fn in operations(model):
                proj.restore(os.path.join(snaps, snap), os.path.join(root, 'p'))
                transitions += 1
                h2 = hist + [name]
                label = ' ; '.join(h2)
                if name == 'clean':
                    rc, out = bfg.build(backend, bld, ['clean'], env, timeout=60)
                    if rc != 0:
                        viol.append(('clean-fails', label, out[-200:]))
                        continue
                    build(label, ['main.c', 'util.c'], model)
                    continue
                m2 = model.clone()
                fn(m2)
                proj.tick()
                write_model(src, model, m2)
                proj.tick()
                expect = [tu for tu in ('main.c', 'util.c')
                          if set(changed) & (m2.closure(m2.tu(tu)) | model.closure(model.tu(tu)))]
                ok = build(label, expect, m2)
                if ok and m2.key() not in seen:
                    seen.add(m2.key())
                    states += 1
                    if lvl + 1 < depth:
                        nsnap += 1
                        proj.snapshot(os.path.join(root, 'p'), os.path.join(snaps, str(nsnap)))
                        nxt.append((m2, h2, str(nsnap)))
        frontier = nxt
    shutil.rmtree(root, ignore_errors=True)
    return cls, backend, viol, states, transitions, ''


def _empty():
    m = Model.__new__(Model)
    m.files = {}
    return m


def run(ctx):
    depth = 3 if ctx.thorough else 2
    classes = list(CLASSES)
    shards = [(c, b, depth) for c in classes for b in ('make', 'ninja')]
    res = core.pmap(_explore, core.seeded_order(shards, ctx.seed))
    allv = []
    states = transitions = 0
    excluded = []
    for cls, b, viol, st, tr, note in res:
        states += st
        transitions += tr
        if note:
            excluded.append('%s/%s: %s' % (cls, b, note))
        for law, label, detail in viol:
            allv.append((law, cls, b, label, detail))
    allv.sort(key=lambda t: (t[0], t[1], t[2], t[3].count(';'), t[3]))
    seen = set()
    for law, cls, b, label, detail in allv:
        if (law, cls, b) in seen:
            continue
        seen.add((law, cls, b))
        ctx.violation('C07:%s:%s:%s:%s' % (law, cls, b, label),
                      'header names of class %s, %s backend, after [%s]: %s: %s' % (cls, b, label, law, detail),
                      case=dict(cls=cls, backend=b, history=label.split(' ; ')), observed=detail)
    if transitions < 100:
        raise core.HarnessError('vacuous C07 exploration: %r' % excluded)
    ctx.level = 'model_checking'
    ctx.cov.update(
        states=states, transitions=transitions, traces_validated_against_impl=transitions,
        samples=[dict(header_names=[CLASSES[c]('a') for c in classes]),
                 dict(history=['modify c x.h', 'rename c x.h'])],
        evaluations=transitions, distinct_nontrivial=states,
        rule='header-name classes %r x {make, ninja}: BFS to depth %d over the edit operations (modify each header / '
             'source, add a header, drop an include and delete its header, rename a transitively included header, '
             'clean) from the built state and every reached state; real gcc through a logging wrapper, real '
             'bfg9000-depfixer; oracles: build succeeds, compiled translation units == those whose include closure '
             '(reference scanner on the model) contains a changed file, program output == the model\'s values, '
             'immediate rebuild compiles nothing, clean + build recompiles everything' % (classes, depth),
        exhaustive=True, excluded_at_runtime=excluded, depth=depth)
    ctx.assumptions += ['the reference include scanner handles #include "..." only (the project uses nothing else '
                        'besides <stdio.h>)', 'deleting a header that is still included is outside the property',
                        'header-name classes no hand-written Makefile can express are excluded at run time (rule 3)']


def replay(rec):
    c = rec['case']
    r = _explore((c['cls'], c['backend'], len(c['history'])))
    hit = [v for v in r[2] if ' ; '.join(c['history']) == v[1]]
    for v in hit:
        print(v)
    return not hit
