"""Typed build-script enumerator: all well-typed programs with <= K steps over a step alphabet.

A program is a list of steps; every step may consume a fresh source file or any type-compatible
output of an earlier step.  Each generated program carries its own declaration-level model:
which files exist in the source tree, which variables are default / test / install / alias
members, and the primary output path of every value (naming rules of bfg9000's documentation).
"""
import itertools

# value types
OBJ, LIB, EXE, FILE, PHONY = 'obj', 'lib', 'exe', 'file', 'phony'


class Value:
    def __init__(self, var, type_, path, step):
        self.var, self.type, self.path, self.step = var, type_, path, step

    def __repr__(self):
        return '%s:%s' % (self.var, self.type)


class Program:
    def __init__(self):
        self.lines = []
        self.files = {}          # source tree: relpath -> content
        self.values = []         # every value created so far
        self.defaults = []       # explicit default()/install() arguments (vars)
        self.tests = []          # primary values handed to test()
        self.installs = []
        self.aliases = {}        # alias name -> member values
        self.commands = []       # phony command names
        self.always = []         # values produced by always_outdated steps
        self.links = []          # values that are symlink / hardlink copies
        self.test_args = []      # built files passed as later arguments of test()
        self.declared_deps = []  # (consumer primary path, dependency path): extra_deps
        self.nsteps = 0
        self.kinds = []

    def clone(self):
        p = Program()
        p.lines = list(self.lines)
        p.files = dict(self.files)
        p.values = list(self.values)
        p.defaults = list(self.defaults)
        p.tests = list(self.tests)
        p.installs = list(self.installs)
        p.aliases = {k: list(v) for k, v in self.aliases.items()}
        p.commands = list(self.commands)
        p.always = list(self.always)
        p.declared_deps = list(self.declared_deps)
        p.links = list(self.links)
        p.test_args = list(self.test_args)
        p.nsteps = self.nsteps
        p.kinds = list(self.kinds)
        return p

    def script(self):
        return '\n'.join(self.lines) + '\n'

    def of(self, *types):
        return [v for v in self.values if v.type in types]

    # ---- model
    def default_members(self):
        """explicit default()/install() arguments, else all linked binaries not handed to test()"""
        if self.defaults:
            return list(self.defaults)
        return [v for v in self.values if v.type in (EXE, LIB) and v not in self.tests]

    def file_values(self):
        return [v for v in self.values if v.type != PHONY]


def src(p, i, header=False):
    name = 's%d.c' % i
    body = 'int f%d(void){return %d;}\n' % (i, i)
    if header:
        p.files['h%d.h' % i] = '#define H%d %d\n' % (i, i)
        body = '#include "h%d.h"\n' % i + body
    p.files[name] = body
    return name


def expand(p, alphabet):
    """All programs obtained from p by appending one step."""
    i = p.nsteps
    out = []

    def new(kind):
        q = p.clone()
        q.nsteps = i + 1
        q.kinds.append(kind)
        return q

    def code_inputs(q):
        """choices for a compiled input: a fresh source, or an existing object"""
        return [('src', None)] + [('obj', v) for v in p.of(OBJ)]

    if 'obj' in alphabet:
        for hdr in (False, True):
            q = new('obj' + ('+hdr' if hdr else ''))
            s = src(q, i, hdr)
            inc = ", includes=[header_file('h%d.h')]" % i if hdr else ''
            q.lines.append("o%d = object_file('o%d', file=%r%s)" % (i, i, s, inc))
            q.values.append(Value('o%d' % i, OBJ, 'o%d.o' % i, i))
            out.append(q)
    for kind, fn, pre, ext, vt in (('exe', 'executable', '', '', EXE),
                                   ('slib', 'static_library', 'lib', '.a', LIB),
                                   ('shlib', 'shared_library', 'lib', '.so', LIB)):
        if kind not in alphabet:
            continue
        libs = [None] + p.of(LIB)
        deps = [None] + p.of(FILE)[-1:]
        for (ik, iv), lib, dep in itertools.product(code_inputs(p), libs, deps):
            q = new(kind + ('+' + ik) + ('+lib' if lib else '') + ('+xdep' if dep else ''))
            if ik == 'src':
                f = repr(src(q, i, header=True))
            else:
                f = iv.var
            args = "files=[%s]" % f
            if lib:
                args += ", libs=[%s]" % lib.var
            if dep:
                args += ", extra_deps=[%s]" % dep.var
            name = '%s%d' % (kind[0], i)
            if dep:
                q.declared_deps.append((pre + name + ext, dep.path))
            if lib and kind == 'slib':
                # an archive does not read the libraries it was declared with, but it consumes them
                # in the sense of the dependency graph (they are forwarded to whoever links it)
                q.declared_deps.append((pre + name + ext, lib.path))
            q.lines.append("%s = %s(%r, %s)" % (name, fn, name, args))
            q.values.append(Value(name, vt, pre + name + ext, i))
            out.append(q)
    step_inputs = [('data', None)] + [('val', v) for v in p.file_values()]
    for kind in ('step1', 'step2', 'stepao', 'step2ao', 'stepcmd'):
        if kind not in alphabet:
            continue
        for ik, iv in step_inputs:
            q = new(kind + '+' + ik)
            if ik == 'data':
                q.files['d%d.in' % i] = 'data %d\n' % i
                inp = repr('d%d.in' % i)
            else:
                inp = iv.var
            if kind in ('step2', 'step2ao'):
                names = ['g%da.txt' % i, 'g%db.txt' % i]
                ao = ', always_outdated=True' if kind == 'step2ao' else ''
                q.lines.append("g%d = build_step(%r, cmd=['gen', build_step.output, '--', "
                               "build_step.input], files=[%s]%s)" % (i, names, inp, ao))
                for j in (0, 1):
                    v = Value('g%d[%d]' % (i, j), FILE, names[j], i)
                    q.values.append(v)
                    if ao:
                        q.always.append(v)
            elif kind == 'stepcmd':
                if ik == 'data':
                    inp = 'generic_file(%s)' % inp
                q.lines.append("g%d = build_step('g%d.txt', cmd=['gen', build_step.output, '--', %s])"
                               % (i, i, inp))
                q.values.append(Value('g%d' % i, FILE, 'g%d.txt' % i, i))
            else:
                ao = ', always_outdated=True' if kind == 'stepao' else ''
                q.lines.append("g%d = build_step('g%d.txt', cmd=['gen', build_step.output, '--', "
                               "build_step.input], files=[%s]%s)" % (i, i, inp, ao))
                v = Value('g%d' % i, FILE, 'g%d.txt' % i, i)
                q.values.append(v)
                if ao:
                    q.always.append(v)
            out.append(q)
    if 'copy' in alphabet:
        for (ik, iv), mode in itertools.product([('data', None)] + [('val', v) for v in p.of(FILE)],
                                                ('copy', 'symlink', 'hardlink')):
            q = new('copy+' + ik + '+' + mode)
            if ik == 'data':
                q.files['d%d.in' % i] = 'data %d\n' % i
                inp = repr('d%d.in' % i)
            else:
                inp = iv.var
            q.lines.append("c%d = copy_file('c%d.txt', %s, mode=%r)" % (i, i, inp, mode))
            v = Value('c%d' % i, FILE, 'c%d.txt' % i, i)
            q.values.append(v)
            if mode != 'copy':
                q.links.append(v)
            out.append(q)
    if 'exepch' in alphabet:
        # one step: a precompiled header and the executable compiled through it
        q = new('exepch')
        q.files['p%d.h' % i] = '#define P%d 1\n' % i
        f = repr(src(q, i, header=False))
        q.lines.append("p%d = precompiled_header(file='p%d.h')" % (i, i))
        q.lines.append("x%d = executable('x%d', files=[%s], pch=p%d)" % (i, i, f, i))
        q.values.append(Value('x%d' % i, EXE, 'x%d' % i, i))
        out.append(q)
    if 'exepchgen' in alphabet:
        # a precompiled header that includes a GENERATED header reached through includes=
        q = new('exepchgen')
        q.files['dg%d.in' % i] = 'data %d\n' % i
        q.files['pg%d.h' % i] = '#include "gh%d.h"\n' % i
        f = repr(src(q, i, header=False))
        q.lines.append("gh%d = build_step('gh%d.h', cmd=['gen', build_step.output, '--', build_step.input], "
                       "files=['dg%d.in'])" % (i, i, i))
        q.lines.append("xg%d = executable('xg%d', files=[%s], includes=[gh%d], pch='pg%d.h')" % (i, i, f, i, i))
        q.values.append(Value('xg%d' % i, EXE, 'xg%d' % i, i))
        q.declared_deps.append(('pg%d.h.gch' % i, 'gh%d.h' % i))
        out.append(q)
    if 'stepenvline' in alphabet:
        # a step whose command is ONE shell line of two simple commands, with environment=
        q = new('stepenvline')
        q.files['d%d.in' % i] = 'data %d\n' % i
        q.lines.append("gl%d = build_step('gl%d.txt', cmd='true && gen gl%d.txt -- ' + source_file('d%d.in').path.string(env.base_dirs), "
                       "files=['d%d.in'], environment={'VVSTEP': 'sv %d'})" % (i, i, i, i, i, i))
        q.values.append(Value('gl%d' % i, FILE, 'gl%d.txt' % i, i))
        out.append(q)
    if 'exeopts' in alphabet:
        # per-target options that repeat words which (in some configurations of C06) are also given
        # globally or through the environment: every occurrence must reach the tool
        q = new('exeopts')
        f = repr(src(q, i, header=False))
        q.lines.append("q%d = executable('q%d', files=[%s], compile_options=['-DGO=1', '-DEF=1', '-DOWN%d=1'], "
                       "link_options=['-Wl,-go', '-Wl,-ef', '-Wl,-own'])" % (i, i, f, i))
        q.values.append(Value('q%d' % i, EXE, 'q%d' % i, i))
        out.append(q)
    if 'vshlib' in alphabet:
        q = new('vshlib')
        f = repr(src(q, i, header=False))
        q.lines.append("v%d = shared_library('v%d', files=[%s], version='1.2.3', soversion='1')" % (i, i, f))
        q.values.append(Value('v%d' % i, LIB, 'libv%d.so' % i, i))
        out.append(q)
    if 'testarg' in alphabet:
        for v in p.file_values():
            q = new('testarg')
            q.lines.append("test(['rec', 'T%d', %s])" % (i, v.var))
            q.test_args.append(v)
            out.append(q)
    if 'alias' in alphabet:
        vals = p.values
        members = [(v,) for v in vals] + list(itertools.combinations(vals, 2))[:3]
        for m in members:
            q = new('alias')
            q.lines.append("a%d = alias('a%d', [%s])" % (i, i, ', '.join(v.var for v in m)))
            q.values.append(Value('a%d' % i, PHONY, 'a%d' % i, i))
            q.aliases['a%d' % i] = list(m)
            out.append(q)
    if 'command' in alphabet:
        for v in p.file_values():
            q = new('command')
            q.lines.append("k%d = command('k%d', cmd=['rec', 'K%d', %s])" % (i, i, i, v.var))
            q.commands.append(('k%d' % i, v))
            out.append(q)
    if 'test' in alphabet:
        for v in p.of(EXE):
            if v in p.tests:
                continue
            q = new('test')
            q.lines.append("test(%s)" % v.var)
            q.tests.append(v)
            out.append(q)
    if 'default' in alphabet:
        for v in p.file_values():
            if v in p.defaults:
                continue
            q = new('default')
            q.lines.append("default(%s)" % v.var)
            q.defaults.append(v)
            out.append(q)
    if 'install' in alphabet:
        for v in p.of(EXE, LIB):
            if v in p.installs:
                continue
            q = new('install')
            q.lines.append("install(%s)" % v.var)
            q.defaults.append(v)
            q.installs.append(v)
            out.append(q)
    return out


FULL = ['obj', 'exe', 'slib', 'shlib', 'vshlib', 'exepch', 'exepchgen', 'exeopts', 'stepenvline', 'step1', 'step2', 'stepao', 'step2ao', 'stepcmd', 'copy', 'alias',
        'command', 'test', 'testarg', 'default', 'install']


def programs(k, alphabet=FULL):
    """All programs with 1..k steps (simplest first), de-duplicated on script text."""
    level = [Program()]
    seen = set()
    out = []
    for depth in range(k):
        nxt = []
        for p in level:
            for q in expand(p, alphabet):
                s = q.script()
                if s in seen:
                    continue
                seen.add(s)
                nxt.append(q)
                out.append(q)
        level = nxt
    return out
