"""Microsoft C runtime command-line parsing rules (DESIGN.md Appendix B).

parse(s): the text after the program name -> argv[1:].  `post2008=True` adds the newer
CRT rule that `""` inside a quoted region yields a literal quote (and stays quoted)."""


def parse(s, post2008=False):
    args = []
    i, n = 0, len(s)
    while True:
        while i < n and s[i] in ' \t':
            i += 1
        if i >= n:
            break
        cur = []
        in_quotes = False
        while i < n:
            c = s[i]
            if c == '\\':
                j = i
                while j < n and s[j] == '\\':
                    j += 1
                nb = j - i
                if j < n and s[j] == '"':
                    cur.append('\\' * (nb // 2))
                    if nb % 2:
                        cur.append('"')
                        i = j + 1
                    else:
                        i = j          # the quote is handled below
                else:
                    cur.append('\\' * nb)
                    i = j
                continue
            if c == '"':
                if post2008 and in_quotes and i + 1 < n and s[i + 1] == '"':
                    cur.append('"')
                    i += 2
                    continue
                in_quotes = not in_quotes
                i += 1
                continue
            if c in ' \t' and not in_quotes:
                break
            cur.append(c)
            i += 1
        args.append(''.join(cur))
    return args
