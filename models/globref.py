"""Brute-force reference semantics for find_files globs (DESIGN.md Appendix C).

Everything is defined on tuples of path components; nothing is shared with bfg9000.glob."""


def _parse_set(pat, i):
    """pat[i] == '['.  -> (negate, members(list of (lo, hi)), index after ']') or None if the
    bracket is not closed (then '[' is a literal, as in fnmatch / POSIX)."""
    j = i + 1
    neg = False
    if j < len(pat) and pat[j] == '!':
        neg = True
        j += 1
    start = j
    if j < len(pat) and pat[j] == ']':
        j += 1
    while j < len(pat) and pat[j] != ']':
        j += 1
    if j >= len(pat):
        return None
    body = pat[start:j]
    members = []
    k = 0
    while k < len(body):
        if k + 2 < len(body) and body[k + 1] == '-':
            members.append((body[k], body[k + 2]))
            k += 3
        else:
            members.append((body[k], body[k]))
            k += 1
    return neg, members, j + 1


def comp_match(pat, name):
    """Does the single-component glob `pat` match the whole of `name`?"""
    def rec(i, j):
        while i < len(pat):
            c = pat[i]
            if c == '*':
                # collapse runs of *
                while i < len(pat) and pat[i] == '*':
                    i += 1
                if i == len(pat):
                    return True
                for k in range(j, len(name) + 1):
                    if rec(i, k):
                        return True
                return False
            if c == '?':
                if j >= len(name):
                    return False
                i += 1
                j += 1
                continue
            if c == '[':
                ps = _parse_set(pat, i)
                if ps is not None:
                    neg, members, ni = ps
                    if j >= len(name):
                        return False
                    hit = any(lo <= name[j] <= hi for lo, hi in members)
                    if hit == neg:
                        return False
                    i = ni
                    j += 1
                    continue
            if j >= len(name) or name[j] != c:
                return False
            i += 1
            j += 1
        return j == len(name)
    return rec(0, 0)


def is_glob(comp):
    return any(c in comp for c in '*?[')


def path_match(pcomps, path):
    """pcomps: pattern components (may contain '**'); path: tuple of names."""
    if not pcomps:
        return not path
    if pcomps[0] == '**':
        rest = pcomps[1:]
        while rest and rest[0] == '**':
            rest = rest[1:]
        return any(path_match(rest, path[i:]) for i in range(len(path) + 1))
    if not path:
        return False
    return comp_match(pcomps[0], path[0]) and path_match(pcomps[1:], path[1:])


def kind_ok(pattern_is_dir, type_, entry_is_dir):
    """a trailing / or type 'd' selects directories, 'f' or no trailing / files, '*' both"""
    if type_ is None:
        return entry_is_dir == pattern_is_dir
    if type_ == '*':
        return True
    return entry_is_dir == (type_ == 'd')


def split_pattern(p):
    """'a/*/b/' -> (('a','*','b'), True)"""
    isdir = p.endswith('/')
    return tuple(c for c in p.split('/') if c), isdir


def literal_base(pcomps):
    out = []
    for c in pcomps:
        if is_glob(c):
            break
        out.append(c)
    return tuple(out)


def name_glob_match(g, type_, name, isdir):
    isd = g.endswith('/')
    return comp_match(g.rstrip('/'), name) and kind_ok(isd, type_, isdir)


class Filter:
    def __init__(self, patterns, type_=None, extra=(), exclude=()):
        self.patterns = [split_pattern(p) for p in patterns]
        self.type = type_
        self.extra = list(extra)
        self.exclude = list(exclude)
        self.bases = [literal_base(pc) for pc, _ in self.patterns]

    def walk_roots(self):
        """minimal set of bases (a base below another base is walked from the upper one)"""
        roots = []
        for b in sorted(set(self.bases), key=len):
            if not any(b[:len(r)] == r for r in roots):
                roots.append(b)
        return roots

    def excluded_here(self, name, isdir):
        return any(name_glob_match(g, self.type, name, isdir) for g in self.exclude)

    def classify(self, path, isdir):
        """-> 'include' | 'extra' | 'no' | 'excluded' for an entry below one of the walk roots.
        `path` is the full tuple of components from the root of the tree."""
        root = None
        for r in self.walk_roots():
            if path[:len(r)] == r:
                root = r
        if root is None:
            return 'no'
        # exclusion: the entry itself or any directory strictly below the walk root
        for k in range(len(root) + 1, len(path) + 1):
            d = k < len(path) or isdir
            if self.excluded_here(path[k - 1], True if k < len(path) else isdir):
                return 'excluded'
        for pc, pisdir in self.patterns:
            if path_match(pc, path) and kind_ok(pisdir, self.type, isdir):
                return 'include'
        if path and any(name_glob_match(g, self.type, path[-1], isdir) for g in self.extra):
            return 'extra'
        return 'no'
