"""File-system mutation interception and crash injection (C10).

run_counting(func, root)      -> list of mutation points of an uninterrupted run
run_crashing(func, root, k, variant) -> the run is killed (os._exit, no finally, no flush)
                                 immediately before mutation point k

Both execute `func` in a forked child of the calling process with builtins.open / os.remove /
os.utime / os.makedirs / os.rename / os.replace wrapped.  Only paths below `root` count.
A file opened for writing contributes three points: 'open' (before the truncating open),
'truncated' (opened, nothing written) and 'torn' (half of the data reaches the file).  The state
"file complete, nothing later" is the before-state of the following point.
"""
import builtins
import json
import os
import sys


class _Crash(BaseException):
    pass


class _Tracker:
    def __init__(self, root, crash_at=None):
        self.root = os.path.abspath(root) + os.sep
        self.points = []
        self.crash_at = crash_at

    def relevant(self, path):
        try:
            p = os.path.abspath(os.fspath(path))
        except TypeError:
            return False
        return (p + os.sep).startswith(self.root)

    def point(self, kind, path):
        """Called immediately BEFORE the mutation happens."""
        idx = len(self.points)
        self.points.append((kind, os.path.relpath(os.path.abspath(os.fspath(path)),
                                                  self.root.rstrip(os.sep))))
        if self.crash_at is not None and idx == self.crash_at:
            sys.stdout.flush()
            os._exit(137)
        return idx


class _FaultFile:
    """Defers all data until close, so that torn states are under the harness' control."""

    def __init__(self, tracker, real, path, binary):
        self._t, self._f, self._path, self._binary = tracker, real, path, binary
        self._buf = []
        self._closed = False

    def write(self, data):
        self._buf.append(data)
        return len(data)

    def writelines(self, lines):
        for l in lines:
            self.write(l)

    def flush(self):
        pass

    def close(self):
        if self._closed:
            return
        self._closed = True
        data = (b'' if self._binary else '').join(self._buf)
        # 'truncated': opened but nothing has reached the file
        self._t.point('truncated', self._path)
        idx = len(self._t.points)
        self._t.points.append(('torn', os.path.relpath(os.path.abspath(self._path),
                                                       self._t.root.rstrip(os.sep))))
        if self._t.crash_at is not None and idx == self._t.crash_at:
            self._f.write(data[:len(data) // 2])
            self._f.flush()
            os._exit(137)
        self._f.write(data)
        self._f.close()

    def __enter__(self):
        return self

    def __exit__(self, *a):
        self.close()
        return False

    def __getattr__(self, name):
        return getattr(self._f, name)


def _install(tracker):
    real_open = builtins.open

    def fopen(file, mode='r', *a, **k):
        if isinstance(file, (str, bytes, os.PathLike)) and any(c in mode for c in 'wax+') \
                and tracker.relevant(file):
            tracker.point('open', file)
            return _FaultFile(tracker, real_open(file, mode, *a, **k), os.fspath(file), 'b' in mode)
        return real_open(file, mode, *a, **k)
    builtins.open = fopen
    import io
    io.open = fopen

    def wrap(mod, name, kind, npaths=1):
        real = getattr(mod, name)

        def w(*a, **k):
            if a and tracker.relevant(a[0]):
                if name == 'makedirs' and os.path.isdir(a[0]):
                    return real(*a, **k)       # no mutation
                tracker.point(kind, a[0])
            return real(*a, **k)
        setattr(mod, name, w)
    wrap(os, 'remove', 'remove')
    wrap(os, 'unlink', 'remove')
    wrap(os, 'utime', 'utime')
    wrap(os, 'makedirs', 'makedirs')
    wrap(os, 'mkdir', 'makedirs')
    wrap(os, 'rename', 'rename')
    wrap(os, 'replace', 'rename')


def _run_child(func, root, crash_at, report):
    pid = os.fork()
    if pid:
        _, status = os.waitpid(pid, 0)
        return os.waitstatus_to_exitcode(status)
    # child
    rc = 99
    try:
        t = _Tracker(root, crash_at)
        _install(t)
        try:
            rc = func()
        except SystemExit as e:
            rc = e.code if isinstance(e.code, int) else 1
        if report:
            with os.fdopen(os.open(report, os.O_WRONLY | os.O_CREAT | os.O_TRUNC), 'w') as f:
                json.dump({'points': t.points, 'rc': rc}, f)
    except BaseException:
        import traceback
        traceback.print_exc()
        rc = 98
    finally:
        sys.stdout.flush()
        sys.stderr.flush()
        os._exit(rc if isinstance(rc, int) and 0 <= rc < 256 else 1)


def run_counting(func, root, scratch):
    report = os.path.join(scratch, 'points.%d.json' % os.getpid())
    rc = _run_child(func, root, None, report)
    if not os.path.exists(report):
        raise RuntimeError('counting run left no report (rc=%s)' % rc)
    d = json.load(open(report))
    os.remove(report)
    return d['points'], d['rc']


def run_crashing(func, root, k):
    """-> child's exit status (137 when the crash point was reached)"""
    return _run_child(func, root, k, None)
