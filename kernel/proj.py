"""Project directories for the program-space checks: materialise a generated program,
configure it, run goals with the strict stub toolchain, turn recorder logs into step sets and a
data-flow graph, snapshot / restore trees (contents and mtimes)."""
import os
import shutil
import time

from . import core, bfg

STUB_EXTRA = ['rec', 'drv', 'gen', 'cpstub', 'lnstub', 'doppel', 'patchelf']


class Proj:
    def __init__(self, root, backend, files, script, extra_env=None, args=()):
        self.root = root
        self.backend = backend
        shutil.rmtree(root, ignore_errors=True)
        self.src = os.path.join(root, 'src')
        self.bld = os.path.join(root, 'bld')
        tree = dict(files)
        tree['build.bfg'] = script
        bfg.write_tree(self.src, tree)
        self.bin = bfg.make_stubbin(os.path.join(root, 'bin'), extra=STUB_EXTRA)
        env = {'CP': 'cpstub -f', 'SYMLINK': 'lnstub -sf', 'HARDLINK': 'lnstub -f', 'VERIF_STRICT': '1'}
        env.update(extra_env or {})
        self.env = bfg.base_env(self.bin, extra=env)
        self.args = list(args)
        self.nlog = 0

    def configure(self, inproc=True, bld=None):
        return bfg.configure(self.src, bld or self.bld, self.backend, self.env, args=self.args,
                             inproc=inproc)

    def run(self, targets, bld=None, keep_going=False, timeout=120):
        """-> (rc, output text, [log records])"""
        self.nlog += 1
        log = os.path.join(self.root, 'log%d' % self.nlog)
        flags = []
        if keep_going:
            flags = ['-k'] if self.backend == 'make' else ['-k', '0']
        rc, out = bfg.build(self.backend, bld or self.bld, targets, self.env, log, flags, timeout)
        recs = bfg.read_log(log)
        try:
            os.remove(log)
        except OSError:
            pass
        return rc, out, recs

    def abspath(self, p, cwd=None):
        return os.path.normpath(os.path.join(cwd or self.bld, p))


def steps_of(recs):
    """recorder log -> list of steps: dict(key=frozenset(abs outputs) or ('proc', tool, argv),
    tool, inputs=set(abs paths), outputs=set(abs paths))"""
    out = []
    for r in recs:
        cwd = r['cwd']
        ins = {os.path.normpath(os.path.join(cwd, i)) for i in r['inputs']}
        outs = {os.path.normpath(os.path.join(cwd, o)) for o in r['outputs']}
        key = frozenset(outs) if outs else ('proc', r['tool'], tuple(r['argv'][1:]))
        out.append(dict(key=key, tool=r['tool'], inputs=ins, outputs=outs, argv=r['argv']))
    return out


def downstream(steps, start_files):
    """step keys transitively consuming any of start_files (never the producers themselves)"""
    hit = set()
    files = set(start_files)
    changed = True
    while changed:
        changed = False
        for s in steps:
            if s['key'] in hit:
                continue
            if s['inputs'] & files:
                hit.add(s['key'])
                files |= s['outputs']
                changed = True
    return hit


def upstream(steps, goal_files):
    """step keys needed to produce goal_files"""
    need = set(goal_files)
    hit = set()
    changed = True
    while changed:
        changed = False
        for s in steps:
            if s['key'] in hit:
                continue
            if s['outputs'] & need:
                hit.add(s['key'])
                need |= s['inputs']
                changed = True
    return hit


def snapshot(src, dst):
    shutil.rmtree(dst, ignore_errors=True)
    shutil.copytree(src, dst, symlinks=True)


def restore(snap, dst):
    shutil.rmtree(dst, ignore_errors=True)
    shutil.copytree(snap, dst, symlinks=True)


TICK = 0.025


def tick():
    """File timestamps come from the kernel's coarse clock (a file that nobody stat()ed since its
    last change is stamped with tick granularity, and that clock may lag the fine one by more than
    10 ms).  Every scripted edit waits for more than one tick first, so that it is STRICTLY newer
    than everything any tool wrote before it; equal-timestamp edits are outside every property."""
    time.sleep(TICK)


def modify(path):
    """append a byte; the new mtime (assigned by the kernel, like any editor's write) is strictly
    newer than everything written before"""
    tick()
    with open(path, 'ab') as f:
        f.write(b'\n/*mod*/')
    tick()


def contents(root):
    out = {}
    for base, dirs, files in os.walk(root):
        for n in files:
            p = os.path.join(base, n)
            if os.path.islink(p):
                out[os.path.relpath(p, root)] = 'link:' + os.readlink(p)
            else:
                with open(p, 'rb') as f:
                    out[os.path.relpath(p, root)] = f.read()
    return out
