"""Driving bfg9000 (in-process and through its CLI), stub toolchain, build tools."""
import contextlib
import io
import json
import os
import shutil
import subprocess
import sys

from . import core

VENV_BIN = '/venv/bin'
BFG_CLI = os.path.join(VENV_BIN, 'bfg9000')
RECORDER = os.path.join(core.VERIF, 'build', 'recorder')
REFNINJA = os.path.join(core.VERIF, 'models', 'refninja', 'ninja')

STUB_NAMES = ['cc', 'c++', 'gcc', 'g++', 'ar', 'gfortran']


def ensure_recorder():
    src = os.path.join(core.VERIF, 'stubs', 'recorder.c')
    if (not os.path.exists(RECORDER) or
            os.path.getmtime(RECORDER) < os.path.getmtime(src)):
        os.makedirs(os.path.dirname(RECORDER), exist_ok=True)
        tmp = RECORDER + '.%d' % os.getpid()
        subprocess.check_call(['gcc', '-O1', '-o', tmp, src])
        os.replace(tmp, RECORDER)
    return RECORDER


def make_stubbin(d, names=STUB_NAMES, extra=(), ninja=True):
    """A bin/ directory with the recorder installed under many names."""
    ensure_recorder()
    os.makedirs(d, exist_ok=True)
    for n in list(names) + list(extra):
        p = os.path.join(d, n)
        if not os.path.lexists(p):
            os.symlink(RECORDER, p)
    if ninja:
        p = os.path.join(d, 'ninja')
        if not os.path.lexists(p):
            os.symlink(REFNINJA, p)
    return d


def base_env(stubbin=None, home=None, extra=None, real_tools=False):
    """Scrubbed environment for configure and for build tools."""
    path = [VENV_BIN, '/usr/local/bin', '/usr/bin', '/bin']
    if stubbin:
        path.insert(0, stubbin)
    env = {
        'PATH': ':'.join(path),
        'HOME': home or core.sandbox_root(),
        'LC_ALL': 'C.UTF-8',
        'TZ': 'UTC',
        'PYTHONHASHSEED': '0',
        'PYTHONDONTWRITEBYTECODE': '1',
        'PYTHONPATH': core.REPO,
    }
    if extra:
        env.update(extra)
    return env


_inited = False


def _init_inproc():
    global _inited
    if _inited:
        return
    _inited = True
    import bfg9000.log as log
    import logging
    log.init('never')
    # repeated in-process log.init() stacks handlers until RecursionError
    log.init = lambda *a, **k: None
    logging.getLogger().setLevel(logging.ERROR)


class Result:
    def __init__(self, rc, out, err):
        self.rc, self.out, self.err = rc, out, err

    def __repr__(self):
        return 'Result(rc=%r, err=%r)' % (self.rc, self.err[-400:])


def run_inproc(argv, env, cwd):
    """Run bfg9000.driver.main() in this process with argv/environ/cwd patched."""
    _init_inproc()
    from bfg9000 import driver
    from bfg9000.backends import list_backends
    import warnings
    old_argv, old_env, old_cwd = sys.argv, dict(os.environ), os.getcwd()
    out, err = io.StringIO(), io.StringIO()
    import logging
    handler = logging.StreamHandler(err)
    root = logging.getLogger()
    saved_handlers = root.handlers[:]
    root.handlers = [handler]
    try:
        sys.argv = [BFG_CLI] + list(argv)
        os.environ.clear()
        os.environ.update(env)
        os.chdir(cwd)
        try:
            list_backends._reset()
        except AttributeError:
            pass
        with contextlib.redirect_stdout(out), contextlib.redirect_stderr(err), \
                warnings.catch_warnings():
            warnings.simplefilter('ignore')
            try:
                rc = driver.main()
            except SystemExit as e:
                rc = e.code
        if rc is None:
            rc = 0
        if not isinstance(rc, int):
            err.write(str(rc))
            rc = 1
    finally:
        root.handlers = saved_handlers
        sys.argv = old_argv
        os.environ.clear()
        os.environ.update(old_env)
        os.chdir(old_cwd)
    return Result(rc, out.getvalue(), err.getvalue())


def run_cli(argv, env, cwd, timeout=120):
    p = subprocess.run([os.path.join(VENV_BIN, 'python'), BFG_CLI] + list(argv),
                       env=env, cwd=cwd, stdout=subprocess.PIPE,
                       stderr=subprocess.PIPE, text=True, timeout=timeout)
    return Result(p.returncode, p.stdout, p.stderr)


def configure(srcdir, builddir, backend='make', env=None, args=(), inproc=True,
              extra=()):
    argv = ['configure-into', srcdir, builddir, '--backend=' + backend,
            '--no-resolve-packages'] + list(args) + list(extra)
    env = env or base_env()
    return (run_inproc if inproc else run_cli)(argv, env, srcdir)


def regenerate(builddir, env=None, lazy=False, inproc=False, cwd=None):
    argv = ['regenerate'] + (['--lazy'] if lazy else []) + [builddir]
    env = env or base_env()
    return (run_inproc if inproc else run_cli)(argv, env, cwd or builddir)


# ------------------------------------------------------------- build tools

def run_tool(cmd, cwd, env, log=None, timeout=120):
    e = dict(env)
    e.pop('MAKEFLAGS', None)
    e.pop('MAKELEVEL', None)
    if log:
        e['VERIF_LOG'] = log
    import signal
    p = subprocess.Popen(cmd, cwd=cwd, env=e, stdin=subprocess.DEVNULL,
                         stdout=subprocess.PIPE, stderr=subprocess.STDOUT,
                         text=True, errors='replace', start_new_session=True)
    try:
        out, _ = p.communicate(timeout=timeout)
        return p.returncode, out
    except subprocess.TimeoutExpired:
        try:
            os.killpg(p.pid, signal.SIGKILL)
        except OSError:
            pass
        out, _ = p.communicate()
        return -9, (out or '') + '\n[harness] timeout after %ds' % timeout


def make(builddir, targets=(), env=None, log=None, flags=(), timeout=120):
    return run_tool(['make', '-j1'] + list(flags) + list(targets), builddir,
                    env or base_env(), log, timeout)


def ninja(builddir, targets=(), env=None, log=None, flags=(), timeout=120):
    return run_tool([REFNINJA] + list(flags) + list(targets), builddir,
                    env or base_env(), log, timeout)


def build(backend, builddir, targets=(), env=None, log=None, flags=(), timeout=120):
    return (make if backend == 'make' else ninja)(builddir, targets, env, log,
                                                  flags, timeout)


def read_log(path):
    if not os.path.exists(path):
        return []
    out = []
    with open(path, encoding='utf-8', errors='surrogateescape') as f:
        for line in f:
            line = line.strip()
            if line:
                out.append(json.loads(line))
    return out


def write_tree(root, files):
    """files: {relpath: content or None for directory}"""
    for rel, content in files.items():
        p = os.path.join(root, rel)
        if content is None:
            os.makedirs(p, exist_ok=True)
            continue
        os.makedirs(os.path.dirname(p) or '.', exist_ok=True)
        with open(p, 'w') as f:
            f.write(content)


def rmtree(p):
    shutil.rmtree(p, ignore_errors=True)
