"""Exploration kernel: context, evidence, known findings, sandboxes, sharding.

Every check is a module in checks/ exposing  run(ctx)  which explores a bounded
space exhaustively, reports candidate violations through ctx.violation(), fills
ctx.cov (coverage counters) and returns.  The runner (../run) turns this into
the exit status / VIOLATION lines / evidence file the interface demands.
"""
import atexit
import hashlib
import json
import multiprocessing
import os
import shutil
import signal
import sys
import time
import traceback

VERIF = os.path.dirname(os.path.dirname(os.path.abspath(__file__)))
REPO = os.environ.get('VERIF_REPO', '/repo')
FINDINGS = os.path.join(VERIF, 'findings', 'known_findings.jsonl')
NCPU = int(os.environ.get('VERIF_WORKERS', os.cpu_count() or 4))


class HarnessError(Exception):
    """Internal inconsistency of the machinery: exit 2, never a verdict."""


# ------------------------------------------------------------------ sandboxes

def _scratch_base():
    for base in (os.environ.get('VERIF_SCRATCH'), '/dev/shm',
                 os.environ.get('TMPDIR'), '/var/tmp'):
        if base and os.path.isdir(base) and os.access(base, os.W_OK):
            return base
    raise HarnessError('no scratch directory')


_ROOT = None


def sandbox_root():
    """Private scratch root of this check process (tmpfs), removed at exit."""
    global _ROOT
    if _ROOT is None:
        base = _scratch_base()
        # sweep stale roots of dead processes
        for n in os.listdir(base):
            if n.startswith('bfgverif.'):
                try:
                    pid = int(n.split('.')[1])
                    os.kill(pid, 0)
                except (ValueError, IndexError):
                    continue
                except ProcessLookupError:
                    shutil.rmtree(os.path.join(base, n), ignore_errors=True)
                except PermissionError:
                    pass
        _ROOT = os.path.join(base, 'bfgverif.%d' % os.getpid())
        shutil.rmtree(_ROOT, ignore_errors=True)
        os.makedirs(_ROOT)
        owner = os.getpid()

        def _cleanup(*a):
            if os.getpid() == owner:
                shutil.rmtree(_ROOT, ignore_errors=True)
        atexit.register(_cleanup)

        def _sig(signum, frame):
            _cleanup()
            os._exit(128 + signum)
        for s in (signal.SIGTERM, signal.SIGINT, signal.SIGHUP):
            try:
                signal.signal(s, _sig)
            except (ValueError, OSError):
                pass
    return _ROOT


def fresh_dir(name):
    d = os.path.join(sandbox_root(), name)
    shutil.rmtree(d, ignore_errors=True)
    os.makedirs(d)
    return d


def worker_dir():
    """Scratch directory private to the calling (worker) process."""
    d = os.path.join(sandbox_root(), 'w%d' % os.getpid())
    os.makedirs(d, exist_ok=True)
    return d


# ------------------------------------------------------------------- sharding

def _call(args):
    func, item = args
    try:
        return ('ok', func(item))
    except HarnessError as e:
        return ('harness', '%s\n%s' % (e, traceback.format_exc()))
    except BaseException as e:  # noqa
        return ('harness', 'worker exception: %r\n%s' % (e, traceback.format_exc()))


def _worker_init():
    # the parent's cleanup handlers must not run in pool workers: Pool.terminate()
    # relies on the default SIGTERM action
    for s in (signal.SIGTERM, signal.SIGINT, signal.SIGHUP):
        signal.signal(s, signal.SIG_DFL)


def pmap(func, items, workers=None, chunksize=1):
    """Deterministic parallel map over a fully materialised list of shards.

    Results come back in input order; a worker-side exception is a harness
    error (exit 2)."""
    items = list(items)
    workers = min(workers or NCPU, max(1, len(items)))
    sandbox_root()
    if workers <= 1:
        out = [_call((func, i)) for i in items]
    else:
        ctx = multiprocessing.get_context('fork')
        with ctx.Pool(workers, initializer=_worker_init) as pool:
            out = pool.map(_call, [(func, i) for i in items], chunksize)
    res = []
    for tag, val in out:
        if tag != 'ok':
            raise HarnessError(val)
        res.append(val)
    return res


def is_subseq(t, s):
    """t is a (not necessarily contiguous) subsequence of s"""
    it = iter(s)
    return all(any(x == c for c in it) for x in t)


def chunks(seq, n):
    seq = list(seq)
    return [seq[i:i + n] for i in range(0, len(seq), n)]


def seeded_order(items, seed):
    """VERIF_SEED only permutes visiting order, never the set explored."""
    items = list(items)
    if not seed:
        return items
    import random
    random.Random(seed).shuffle(items)
    return items


# -------------------------------------------------------------- known findings

def load_findings():
    out = []
    if os.path.exists(FINDINGS):
        for line in open(FINDINGS):
            line = line.strip()
            if line and not line.startswith('#'):
                out.append(json.loads(line))
    return out


# ---------------------------------------------------------------------- ctx

class Ctx:
    def __init__(self, pid, tier, seed):
        self.pid = pid
        self.tier = tier
        self.seed = seed
        self.thorough = tier == 'thorough'
        self.t0 = time.time()
        self.cov = {}
        self.level = 'exploration'
        self.assumptions = []
        self._viol = {}       # key -> record
        self._known = {f['key']: f for f in load_findings()
                       if f.get('status') == 'known' and f.get('property') == pid}
        self.notes = []

    # a violation is identified by a canonical key naming the minimal input /
    # call site / history; only exact keys listed as "known" are suppressed
    def violation(self, key, what, case=None, expected=None, observed=None,
                  commands=None):
        if key in self._viol:
            self._viol[key]['count'] += 1
            return
        self._viol[key] = dict(key=key, what=what, case=case, expected=expected,
                               observed=observed, commands=commands or [],
                               count=1)

    def clear_replays(self):
        """stale artefacts of earlier runs of this check must not be mistaken for current ones"""
        import glob
        for f in glob.glob(os.path.join(VERIF, 'replay', self.pid + '-*.json')):
            try:
                os.remove(f)
            except OSError:
                pass

    def note(self, msg):
        self.notes.append(msg)
        print('note:', msg, flush=True)

    def finish(self):
        os.makedirs(os.path.join(VERIF, 'replay'), exist_ok=True)
        unknown = 0
        lines = []
        for key in sorted(self._viol):
            v = self._viol[key]
            if key in self._known:
                lines.append('KNOWN-FINDING: property=%s %s [%s]' % (
                    self.pid, self._known[key].get('what', v['what']), key))
                continue
            unknown += 1
            h = hashlib.sha1(key.encode()).hexdigest()[:12]
            path = os.path.join(VERIF, 'replay', '%s-%s.json' % (self.pid, h))
            with open(path, 'w') as f:
                json.dump(dict(property=self.pid, tier=self.tier, **v), f,
                          indent=1, default=repr, ensure_ascii=False)
            lines.append('VIOLATION property=%s replay=%s  # %s: %s' % (
                self.pid, path, key, v['what']))
        cov = dict(self.cov)
        cov.setdefault('known_findings_matched',
                       sorted(k for k in self._viol if k in self._known))
        cov.setdefault('violation_keys',
                       sorted(k for k in self._viol if k not in self._known))
        ev = dict(property_id=self.pid, tier=self.tier, seed=int(self.seed),
                  level=self.level, coverage=cov,
                  assumptions=self.assumptions,
                  wall_s=round(time.time() - self.t0, 2), violations=unknown)
        check_evidence(ev)
        os.makedirs(os.path.join(VERIF, 'evidence'), exist_ok=True)
        with open(os.path.join(VERIF, 'evidence', self.pid + '.json'), 'w') as f:
            json.dump(ev, f, indent=1, default=repr, ensure_ascii=False)
            f.write('\n')
        for l in lines:
            print(l)
        brief = {k: v for k, v in cov.items()
                 if isinstance(v, (int, float, bool, str)) and k != 'rule'}
        print('%s %s: %s wall=%.1fs violations=%d known=%d' % (
            self.pid, self.tier, json.dumps(brief), time.time() - self.t0,
            unknown, len(self._viol) - unknown), flush=True)
        return 1 if unknown else 0


def check_evidence(ev):
    """Self-check against the required-keys rules of EVIDENCE.schema.json."""
    cov = ev['coverage']
    lvl = ev['level']

    def generic(minimum_samples=True):
        ok = (isinstance(cov.get('evaluations'), int) and cov['evaluations'] >= 1
              and isinstance(cov.get('distinct_nontrivial'), int)
              and cov['distinct_nontrivial'] >= 2)
        if minimum_samples:
            ok = ok and isinstance(cov.get('rule'), str) and \
                isinstance(cov.get('samples'), list) and len(cov['samples']) >= 1
        return ok
    if lvl in ('exploration', 'fault_enumeration'):
        if not generic():
            raise HarnessError('evidence lacks exploration keys: %r' % list(cov))
    elif lvl == 'model_checking':
        keys = ('states', 'transitions', 'traces_validated_against_impl',
                'samples')
        if all(k in cov for k in keys):
            if not (cov['states'] >= 1 and cov['transitions'] >= 1 and
                    len(cov['samples']) >= 1):
                raise HarnessError('vacuous model-checking evidence')
        elif not generic(False):
            raise HarnessError('evidence lacks model_checking keys')
    else:
        raise HarnessError('unexpected level %r' % lvl)
    path = '/root/.vp/EVIDENCE.schema.json'
    if os.path.exists(path):
        try:
            import jsonschema
        except ImportError:
            return
        jsonschema.validate(json.loads(json.dumps(ev, default=repr)),
                            json.load(open(path)))
