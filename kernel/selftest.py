"""Self-tests of the trusted reference models (./run selftest).

refninja: hand-written manifests, one per rule of DESIGN.md Appendix A, with the expected
command line / rebuild behaviour.  msvcrt_argv: Microsoft's documented examples.  globref: agreement
of the single-component matcher with fnmatch.fnmatchcase on an exhaustive small space.
"""
import fnmatch
import itertools
import json
import os
import shutil
import subprocess
import time

from . import core, bfg

NINJA = bfg.REFNINJA


def ninja(d, *args):
    p = subprocess.run([NINJA] + list(args), cwd=d, stdout=subprocess.PIPE, stderr=subprocess.STDOUT, text=True,
                       env={'PATH': '/usr/bin:/bin'})
    return p.returncode, p.stdout


def commands(d):
    rc, out = ninja(d, '-t', 'refdump')
    return {tuple(e['outputs']): e['command'] for e in json.loads(out)['edges']}


def case(name, manifest, check, files=None):
    d = core.fresh_dir('st-' + name)
    with open(os.path.join(d, 'build.ninja'), 'w') as f:
        f.write(manifest)
    time.sleep(0.03)
    for k, v in (files or {}).items():
        os.makedirs(os.path.dirname(os.path.join(d, k)) or d, exist_ok=True)
        with open(os.path.join(d, k), 'w') as f:
            f.write(v)
    try:
        ok = check(d)
    except Exception as e:  # noqa
        ok = False
        print('   exception:', repr(e))
    shutil.rmtree(d, ignore_errors=True)
    return name, bool(ok)


def touch_new(path):
    time.sleep(0.03)
    os.utime(path)
    time.sleep(0.03)


def ninja_cases():
    R = []
    # --- escapes and scoping (manual: "Variables", "Lexical syntax")
    R.append(case('dollar-escapes', 'rule r\n  command = echo $$x $ y $:z > $out\nbuild o: r\n',
                  lambda d: commands(d)[('o',)] == 'echo $x  y :z > o'))
    R.append(case('braced-and-simple-vars', 'a = 1\nb = ${a}2\nrule r\n  command = echo $a.$b.${b}x $a-\nbuild o: r\n',
                  # `$a-` names the (unset) variable `a-`: simple names are [A-Za-z0-9_-]+
                  lambda d: commands(d)[('o',)] == 'echo 1.12.12x '))
    R.append(case('toplevel-evaluated-immediately', 'a = 1\nb = $a\na = 2\nrule r\n  command = echo $a $b\nbuild o: r\n',
                  lambda d: commands(d)[('o',)] == 'echo 2 1'))
    R.append(case('rule-vars-expanded-late-in-edge-scope',
                  'rule r\n  command = echo $flags\nflags = top\nbuild o1: r\nbuild o2: r\n  flags = edge\n',
                  lambda d: commands(d)[('o1',)] == 'echo top' and commands(d)[('o2',)] == 'echo edge'))
    R.append(case('edge-binding-sees-file-scope', 'g = G\nrule r\n  command = echo $x\nbuild o: r\n  x = ${g}!\n',
                  lambda d: commands(d)[('o',)] == 'echo G!'))
    R.append(case('rule-binding-indirection', 'rule r\n  command = $cmd\nbuild o: r\n  cmd = echo hi > $$out\n',
                  lambda d: commands(d)[('o',)] == 'echo hi > $out'))
    R.append(case('in-out-shell-escaped', "rule r\n  command = cat $in > $out\nbuild a$ b: r x$ y z\n",
                  lambda d: commands(d)[('a b',)] == "cat 'x y' z > 'a b'"))
    R.append(case('in-quote-escaped', "rule r\n  command = cat $in\nbuild o: r it's\n",
                  lambda d: commands(d)[('o',)] == "cat 'it'\\''s'"))
    R.append(case('implicit-and-orderonly-not-in-in', 'rule r\n  command = cat $in\nbuild o: r a | b || c\n',
                  lambda d: commands(d)[('o',)] == 'cat a'))
    R.append(case('path-colon-escape', 'rule r\n  command = touch $out\nbuild a$:b: r\n',
                  lambda d: ('a:b',) in commands(d)))
    R.append(case('continuation', 'rule r\n  command = echo $\n      joined\nbuild o: r\n',
                  lambda d: commands(d)[('o',)] == 'echo joined'))
    R.append(case('comment-lines', '# c\nrule r\n  # inner\n  command = true\nbuild o: r\n',
                  lambda d: commands(d)[('o',)] == 'true'))
    R.append(case('bad-dollar-is-error', 'rule r\n  command = echo $%\nbuild o: r\n', lambda d: ninja(d)[0] != 0))
    R.append(case('duplicate-output-is-error', 'rule r\n  command = true\nbuild o: r\nbuild o: r\n',
                  lambda d: ninja(d)[0] != 0))
    R.append(case('unknown-rule-is-error', 'build o: nope\n', lambda d: ninja(d)[0] != 0))
    R.append(case('unexpected-rule-var-is-error', 'rule r\n  command = true\n  bogus = 1\nbuild o: r\n',
                  lambda d: ninja(d)[0] != 0))
    R.append(case('missing-input-is-error', 'rule r\n  command = touch $out\nbuild o: r nonexistent\n',
                  lambda d: ninja(d)[0] != 0))

    # --- dirtiness
    def incr(d):
        rc, out = ninja(d)
        if rc or not os.path.exists(os.path.join(d, 'o')):
            return False
        rc, out = ninja(d)
        if 'no work to do' not in out:
            return False
        touch_new(os.path.join(d, 'i'))
        rc, out = ninja(d)
        return rc == 0 and 'no work to do' not in out
    R.append(case('rebuild-when-input-newer', 'rule r\n  command = cp $in $out\nbuild o: r i\n', incr, {'i': 'x'}))

    def cmdchange(d):
        ninja(d)
        with open(os.path.join(d, 'build.ninja'), 'w') as f:
            f.write('rule r\n  command = cp $in $out && true\nbuild o: r i\n')
        rc, out = ninja(d)
        return 'no work to do' not in out
    R.append(case('rebuild-when-command-changes', 'rule r\n  command = cp $in $out\nbuild o: r i\n', cmdchange,
                  {'i': 'x'}))

    def orderonly(d):
        ninja(d)
        touch_new(os.path.join(d, 'oo'))
        rc, out = ninja(d)
        return 'no work to do' in out
    R.append(case('order-only-does-not-dirty', 'rule r\n  command = cp $in $out\nbuild o: r i || oo\n', orderonly,
                  {'i': 'x', 'oo': 'y'}))

    def phony_always(d):
        ninja(d, 'o')
        rc, out = ninja(d, 'o')
        return 'no work to do' not in out
    R.append(case('phony-without-inputs-is-always-dirty',
                  'rule r\n  command = touch $out\nbuild PHONY: phony\nbuild o: r | PHONY\n', phony_always))

    def phony_alias(d):
        rc, out = ninja(d, 'all')
        return rc == 0 and os.path.exists(os.path.join(d, 'o'))
    R.append(case('phony-alias-builds-inputs', 'rule r\n  command = touch $out\nbuild o: r\nbuild all: phony o\n',
                  phony_alias))

    def default_stmt(d):
        ninja(d)
        return os.path.exists(os.path.join(d, 'a')) and not os.path.exists(os.path.join(d, 'b'))
    R.append(case('default-statement', 'rule r\n  command = touch $out\nbuild a: r\nbuild b: r\ndefault a\n',
                  default_stmt))

    def outdirs(d):
        rc, out = ninja(d)
        return rc == 0 and os.path.exists(os.path.join(d, 'x/y/o'))
    R.append(case('output-directories-created', 'rule r\n  command = touch $out\nbuild x/y/o: r\n', outdirs))

    def depsgcc(d):
        rc, out = ninja(d)
        if rc or os.path.exists(os.path.join(d, 'o.d')):
            return False
        if 'no work to do' not in ninja(d)[1]:
            return False
        touch_new(os.path.join(d, 'my hdr.h'))
        return 'no work to do' not in ninja(d)[1]
    R.append(case('deps-gcc-records-and-removes-depfile',
                  "rule r\n  command = cp $in $out && printf 'o: i my\\\\ hdr.h\\n' > $out.d\n  depfile = $out.d\n"
                  "  deps = gcc\nbuild o: r i\n", depsgcc, {'i': 'x', 'my hdr.h': 'h'}))

    def depsmissing(d):
        ninja(d)
        os.remove(os.path.join(d, 'h.h'))
        rc, out = ninja(d)
        return rc == 0 and 'no work to do' not in out
    R.append(case('missing-recorded-dep-is-dirty-not-error',
                  "rule r\n  command = cp $in $out && printf 'o: i h.h\\n' > $out.d\n  depfile = $out.d\n  deps = gcc\n"
                  "build o: r i\n", depsmissing, {'i': 'x', 'h.h': 'h'}))

    def depfile_plain(d):
        rc, out = ninja(d)
        if rc or 'no work to do' not in ninja(d)[1]:
            return False
        touch_new(os.path.join(d, 'dir'))
        return 'no work to do' not in ninja(d)[1]
    R.append(case('depfile-without-deps-read-every-time',
                  "rule r\n  command = touch $out && echo 'o: dir' > o.dep\n  depfile = o.dep\nbuild o: r\n",
                  depfile_plain, {'dir/x': ''}))

    def generator(d):
        ninja(d)
        with open(os.path.join(d, 'build.ninja')) as f:
            t = f.read()
        with open(os.path.join(d, 'build.ninja'), 'w') as f:
            f.write(t.replace('touch $out', 'touch $out && true'))
        touch_old = os.stat(os.path.join(d, 'g')).st_mtime_ns
        os.utime(os.path.join(d, 'build.ninja'), ns=(touch_old - 10, touch_old - 10))
        return 'no work to do' in ninja(d, 'g')[1]
    R.append(case('generator-ignores-command-change', 'rule r\n  command = touch $out\n  generator = 1\nbuild g: r\n',
                  generator))

    def regen(d):
        rc, out = ninja(d)
        return rc == 0 and os.path.exists(os.path.join(d, 'second'))
    R.append(case('manifest-regenerated-then-reloaded',
                  "rule regen\n  command = printf 'rule t\\n  command = touch $$out\\nbuild second: t\\n' > build.ninja\n"
                  "  generator = 1\nbuild build.ninja: regen | trigger\n", regen, {'trigger': ''}))

    def clean(d):
        ninja(d)
        ninja(d, '-t', 'clean')
        return not os.path.exists(os.path.join(d, 'o')) and os.path.exists(os.path.join(d, 'g')) and \
            os.path.exists(os.path.join(d, 'i'))
    R.append(case('clean-keeps-generator-outputs-and-sources',
                  'rule r\n  command = cp $in $out\nrule g\n  command = touch $out\n  generator = 1\n'
                  'build o: r i\nbuild g: g\n', clean, {'i': 'x'}))

    def failstop(d):
        rc, out = ninja(d)
        return rc != 0 and not os.path.exists(os.path.join(d, 'b'))
    R.append(case('first-failure-stops', 'rule f\n  command = false\nrule t\n  command = touch $out\nbuild a: f\nbuild b: t a\n',
                  failstop))
    R.append(case('unsupported-construct-is-not-a-verdict', 'include other.ninja\n', lambda d: ninja(d)[0] == 3))
    R.append(case('version', 'rule r\n  command = true\n', lambda d: ninja(d, '--version')[1].strip() == '1.11.1'))
    return R


def msvcrt_cases():
    from models.msvcrt_argv import parse
    tests = [(r'"abc" d e', ['abc', 'd', 'e']), (r'a\\b d"e f"g h', [r'a\\b', 'de fg', 'h']),
             (r'a\\\"b c d', [r'a\"b', 'c', 'd']), (r'a\\\\"b c" d e', [r'a\\b c', 'd', 'e'])]
    out = []
    for s, exp in tests:
        out.append(('msvcrt:' + s, parse(s) == exp and parse(s, True) == exp))
    out.append(('msvcrt:post2008-double-quote', parse('a"b"" c d', True) == ['ab" c d']))
    return out


def glob_cases():
    from models.globref import comp_match
    pats = [''.join(t) for n in range(1, 4) for t in itertools.product(['a', '*', '?', '[ab]', '[!a]', '.', 'b'], repeat=n)]
    names = [''.join(t) for n in range(0, 4) for t in itertools.product('ab.[', repeat=n)]
    bad = [(p, n) for p in pats for n in names if comp_match(p, n) != fnmatch.fnmatchcase(n, p)]
    return [('globref:agrees-with-fnmatch on %d pairs' % (len(pats) * len(names)), not bad)]


def main():
    results = ninja_cases() + msvcrt_cases() + glob_cases()
    failed = [n for n, ok in results if not ok]
    for n, ok in results:
        print('%-55s %s' % (n, 'ok' if ok else 'FAILED'))
    print('%d self-tests, %d failed' % (len(results), len(failed)))
    return 1 if failed else 0
