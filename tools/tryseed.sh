#!/bin/sh
# usage: tools/tryseed.sh <patch.diff> <PID> [tier]  -- apply to /repo, run the check, undo
set -u
patch="$1"; pid="$2"; tier="${3:-quick}"
cd /verif
git -C /repo status --short | grep -q . && { echo "/repo not clean"; exit 9; }
git -C /repo apply "$patch" || exit 9
./run check "$pid" --tier "$tier" > /dev/shm/tryseed.$pid.out 2>&1; rc=$?
git -C /repo checkout -- . ; git -C /repo status --short
echo "== $patch on $pid/$tier: exit $rc"
grep -c '^VIOLATION' /dev/shm/tryseed.$pid.out
grep '^VIOLATION\|HARNESS' /dev/shm/tryseed.$pid.out | sed 's/replay=[^ ]* //' | cut -c1-300 | head -8
tail -1 /dev/shm/tryseed.$pid.out | cut -c1-200
