#!/venv/bin/python
"""Print the prompt for a seeded-mutation sub-agent: tools/seedprompt.py C12 a"""
import json, sys
pid, tag = sys.argv[1], sys.argv[2]
hint = sys.argv[3] if len(sys.argv) > 3 else ''
prop = [json.loads(l) for l in open('/verif/properties.jsonl') if json.loads(l)['id'] == pid][0]
wt = '/tmp/seedwork/wt-%s%s' % (pid, tag)
out = '/tmp/seedwork/out-%s%s' % (pid, tag)
print(f"""You are helping to evaluate a verification effort for the open-source project jimporter/bfg9000
(a Python build-configuration system that generates Makefiles / build.ninja / MSBuild files).
Your job: write ONE realistic, subtle code change ("seeded defect") to bfg9000 that BREAKS the semantic
property below, while the project still imports/compiles and its existing pinned unit-test suite still passes.

Your private scratch copy of the repository is a git worktree at {wt} (already created). Work ONLY there.
Do not read or touch /repo, /verif or any other directory outside {wt} and {out}. Do not commit anything.

THE PROPERTY (id {pid}):
{json.dumps(prop, indent=1, ensure_ascii=False)}

Requirements for the change:
* It must be a plausible mistake a maintainer could make in a refactoring or "optimisation" (an off-by-one, a
  dropped case, a wrong regex, a cache used one step too long, two sites that each look fine alone) -- not a
  blatant breakage. It must need something SPECIFIC to manifest: an unusual input, a multi-step sequence of
  operations, a particular combination of options, a crash/fault at a particular point -- NOT something that
  ordinary use (e.g. the examples in the repository, or the simplest possible project) would expose at once.
* The pinned test suite must still pass completely. Run it from the worktree:
      cd {wt} && /venv/bin/python -m pytest -q -p no:cacheprovider --timeout=900 --continue-on-collection-errors -x -q 2>&1 | tail -5
  NOTE: compare against the unmodified worktree first (some tests fail/err on the pristine tree in this sandbox,
  e.g. 32 abstract-class failures in test/unit/test_path.py and tests needing tools that are not installed):
  the set of PASSING tests must not shrink. Record the pass counts before/after (e.g. "N passed" lines without -x).
  Make sure Python imports the worktree copy: run things with cwd={wt} and PYTHONPATH={wt}
  (check: cd {wt} && PYTHONPATH={wt} /venv/bin/python -c "import bfg9000; print(bfg9000.__file__)").
* Provide a demonstration: a small standalone script (Python or shell) that exits non-zero / prints FAIL with your
  change applied and exits 0 / prints PASS on the unmodified tree. It must exercise bfg9000 the way the property
  describes (through its public API or CLI, running make / sh / gcc etc. where relevant), not just assert on
  internal text. Facts about this sandbox: no network; `ninja` is NOT installed; `mopack` is broken so every
  `bfg9000 configure` needs --no-resolve-packages; the CLI is /venv/bin/bfg9000 (it imports whatever bfg9000 is
  first on PYTHONPATH); GNU make, gcc, clang, pkg-config, patchelf are installed; use /dev/shm or {out} for
  scratch files and clean up after yourself.
{hint}
Deliverables, written to {out}/ (create it):
  patch.diff   -- output of `git -C {wt} diff` (unified diff against HEAD, applies with `git apply`)
  demo.py or demo.sh -- the demonstration (takes the repository root to test as its first argument)
  meta.json    -- {{"property": "{pid}", "summary": "...what the change does...", "needs": "...what specific
                  input/sequence/condition it needs to manifest...", "files": [...], "tests_before": "...",
                  "tests_after": "...", "demo_unmodified": "PASS/…", "demo_modified": "FAIL/…"}}
When done, leave the worktree WITH your change applied (do not revert it), and reply with a short summary:
what you changed, what it needs to manifest, and the test-suite numbers. Do not do anything else.""")
