#!/venv/bin/python
"""Regenerate MANIFEST.json from the table below (single source of truth)."""
import json
import os

VERIF = os.path.dirname(os.path.dirname(os.path.abspath(__file__)))

# pid -> (category, technique, text, note, design_ref)
CLAIMS = {
    'C01': ('exploration',
            'bounded exhaustive string x position enumeration executed by the real GNU make + /bin/sh against a recording stub toolchain',
            'Every string over the stated alphabets (all single printable characters incl. TAB and 3 non-ASCII code '
            'points, all pairs, class-representative triples, quote-alphabet strings up to length 6 in the thorough '
            'tier) is placed in every argument position of a generated build script (command argument/word/'
            'environment incl. a command given as one shell line, build_step, test, test_driver children, compile/link/global options in list form and as one '
            'string that bfg9000 splits by sh rules, CPPFLAGS/CFLAGS/LDFLAGS/LDLIBS at configure time, define values, '
            'include directories, files and directories named inside a command); bfg9000 generates the Makefile, the real make and sh run it, and the stub toolchain records '
            'the argv/environ each process received; the oracle is identity. Exhaustive within the bounds; batches '
            'only raise suspicion, singletons decide, candidates are re-confirmed twice through the CLI.',
            'trusted: the recording stub (stubs/recorder.c), GNU make 4.3 and dash as the downstream interpreters; '
            'command words that sh classifies as builtins are excluded at run time',
            'DESIGN.md §6 C01'),
    'C02': ('exploration',
            'bounded exhaustive string x position enumeration; manifest evaluated by a reference Ninja evaluator (refninja), commands run by the real /bin/sh against a recording stub toolchain',
            'Same string space and positions as C01 with --backend=ninja. Ninja is not installed, so the generated '
            'build.ninja is evaluated by refninja, an implementation of the manifest semantics of the Ninja manual '
            '(DESIGN.md Appendix A); the evaluated command lines are run by the real /bin/sh -c, exactly as Ninja '
            'does, and the stub toolchain records what each process received; oracle = identity.',
            'trusted: refninja (models/refninja/ninja) as the meaning of the Ninja manifest language, the recording '
            'stub, dash',
            'DESIGN.md §6 C02, Appendix A'),
    'C12': ('exploration',
            'bounded exhaustive input-space enumeration + closure exploration on the real Path classes, posixpath/ntpath reference',
            'Every path string of <=3 (quick) / <=4 (thorough) components over a class-representative component '
            'alphabet, in every separator assignment, prefix form, root and platform flavour, is constructed on the '
            'real PosixPath/WindowsPath and compared with a posixpath reference; the closure under the path '
            'operations to depth 2/3 is explored as a state graph and the inverse/equality/realisation laws are '
            'checked on every reached state and every ordered pair; commonprefix/uniquetrees on all multisets of '
            '<=3 paths. Exhaustive within the stated bounds; nothing sampled.',
            'trusted: posixpath/ntpath as the meaning of ordinary joining/normalisation; UNC-like (leading //) and '
            'leading-~ strings are outside the domain',
            'DESIGN.md §6 C12'),
}

CLAIMS['C20'] = (
    'model_checking',
    'exhaustive argument-string enumeration against an MS C-runtime argv model + explicit-state BFS over configure/regenerate histories on the real msbuild backend',
    '(a) every argument string over {a, space, TAB, ", \\}^<=5/6 and all 1-2 character printable strings (minus '
    'cmd.exe metacharacters), singly and in all ordered pairs of short strings, is joined with the real '
    'bfg9000.shell.windows code and parsed back by a model of the Microsoft C runtime rules (pre- and post-2008 '
    'variants) and by windows.split. (b) explicit-state breadth-first search to depth 3/4 over histories of script '
    'edits (add/remove/retype a project of 4 MSBuild-representable kinds, toggle a dependency) interleaved with '
    'configure and regenerate runs of the real backend; every reached solution is parsed and checked for '
    'well-formedness, GUID uniqueness, dependency closure, agreement of .sln/.proj/.bfg_uuid, and GUID stability '
    'along every transition.',
    'trusted: models/msvcrt_argv.py (validated against Microsoft\'s documented examples); VC++ projects need MSVC '
    'and are out of reach here',
    'DESIGN.md §6 C20, Appendix B')

CLAIMS['C09'] = (
    'model_checking',
    'explicit-state BFS over operation sequences on the real variable store against a dict model; exhaustive configuration x ambient-environment product on the real configure/regenerate/env/run commands',
    '(a) breadth-first search to depth 4/5 over 41 operations (every mutator incl. |=, JSON round-trip, lazy change-log '
    'materialisation) on the real EnvVarDict from the initial and every reached state, state = (ordered items, '
    'initial, change log or lazy); invariants: contents and results equal a plain dict, apply(initial, changes) == '
    'current, JSON round-trip equivalent. (b,d) the full product of configure options (backend, library mode, install '
    'dirs with spaces, toolchain file, project arguments, compdb) is configured for real; the saved snapshot must '
    'load/save stably and contain what was chosen; then regenerate, env and run are executed under every '
    'one-at-a-time (and all-at-once) ambient change of 19 configuration-relevant variables and from several working '
    'directories, and must reproduce the configure-time build files byte for byte / print the saved variables. '
    '(c) snapshots downgraded with the inverse of each documented upgrade step (versions 4..16) must load to the '
    'same configuration on every field the old version could express.',
    'trusted: a plain dict as reference for the variable store; the downgrade inverses listed in the check; mopack '
    'is broken in the image so package resolution is outside the check',
    'DESIGN.md §6 C09')

CLAIMS['C05'] = (
    'exploration',
    'bounded exhaustive source-path enumeration x target kinds on the real configure; injectivity decided for all pairs by dictionary build; must-collide scripts; source-tree snapshots',
    'Every source path of 1-3 components over a component alphabet with dots, hidden names, equal stems and one/two '
    'character names (thorough: every 1-2 character component over [a-z0-9._-]) is given to every target kind '
    '(executable, static/shared library, object_files/copy_files with directory=, executable without intermediate '
    'dirs) from the root script and from a submodule through ../; the real configure maps each to its implicit output '
    '(read back from compile_commands.json); all pairs differing in a directory component or stem must get different '
    'outputs inside the build directory (decided for ~8 million pairs by dictionary), each candidate confirmed by '
    'configuring the pair in one target in-process and through the CLI. A catalogue of must-collide scripts must be '
    'rejected on both backends without writing a build file, and the source tree is snapshotted (names, modes, '
    'sizes, mtimes, hashes) around configure, build, regenerate, dist and clean.',
    'trusted: compile_commands.json output fields as the statement of where a step writes (cross-checked by the '
    'confirming pair configure); generated_source is not among the kinds explored',
    'DESIGN.md §6 C05')

CLAIMS['C11'] = (
    'exploration',
    'bounded exhaustive (pattern, path) and (tree, filter) enumeration on the real matcher and the real find_files builtin against a brute-force glob reference',
    'Layer 1: every glob over a 9-symbol component grammar (1-3 components, 4 with two ** runs, with/without '
    'trailing slash) x type values, and every 1-2 pattern filter with exclude/extra lists, is evaluated with the real '
    'PathGlob/FileFilter on every path (file and directory) of depth <=3/4 over names with dots, spaces, hidden, '
    'backup and bracket names and compared with models/globref; every directory-pruning verdict is checked for '
    'soundness. Layer 2: the real find_files/find_paths, called from a build.bfg through the real configure, on all '
    'directory trees with <=4/5 entries (plus symlinked-directory variants) x ~250-400 filters x {cached, cached '
    'again, uncached}: results equal the reference over an unpruned listing, no duplicates, every entry exists; '
    'distribution membership for dist/cache/filter-function combinations is read from the generated dist rule.',
    'trusted: models/globref.py as the documented semantics (Appendix C); stated don\'t-care regions',
    'DESIGN.md §6 C11, Appendix C')

CLAIMS['C03'] = (
    'model_checking',
    'exhaustive enumeration of well-typed build scripts (<=2/3 steps) x both backends; per program explicit exploration of every single-file modification from the built state, executed by the real make / refninja with a strict recording stub toolchain',
    'All well-typed programs with <=2 steps (610) over a 21-template step alphabet; thorough: plus every 3-step '
    'program over the 17 templates of the first version (19418 programs in all). Templates: '
    '(object files with explicit headers, executables, static/shared/versioned libraries consuming sources/objects/'
    'libraries/extra_deps, executables with a precompiled header (also one including a generated header), with '
    'per-target options, build_steps with one/two outputs/always_outdated/files named in the command/one shell '
    'line with environment=, copy_file in three modes, alias, command, test, test arguments, default, install) '
    'are configured for Make and Ninja. For each: full build (one producer per '
    'file, no missing ordering edge: the stub fails on missing inputs), repeated build (no-op up to always-outdated '
    'cones), then from the built state one incremental build per modification of every source, header, data file '
    'and product: the executed step set must equal the steps downstream of the file in the observed data-flow '
    'graph (+declared extra_deps), and for inputs every product must equal a from-scratch build of the modified '
    'tree; default/all/alias/test/install/command goals from a clean tree must run exactly the closure of their '
    'declared members. State = (program, modified file); transitions = builds.',
    'trusted: refninja (Appendix A), the strict stub toolchain (which imitates gcc for .gch lookup and depfile '
    'content); generated_source (lex/yacc) and submodules are outside this step alphabet',
    'DESIGN.md §6 C03')

CLAIMS['C13'] = (
    'exploration',
    'complete enumeration of the product hash seed range x invocation contexts, each a fresh bfg9000 process, byte comparison of outputs',
    'A kitchen-sink project using every builtin family (several find_files, libraries in different directories, '
    'forwarded options, installs, pkg-config with several includes/libs/requires, tests and drivers, submodule, '
    'options, dict-valued environments) is configured in fresh processes for both backends under the full product '
    'of PYTHONHASHSEED 0..7 (quick) / 0..63 (thorough) x every valid combination of command form (configure from '
    'the source or build directory, configure-into from four working directories, 9k) and directory naming '
    '(absolute, relative, ./x/) x unrelated environment variable; Makefile/build.ninja, compile_commands.json and '
    '.pc files must be byte-identical, auxiliary files equal as sets. A canary reports how many distinct set '
    'iteration orders the seed range actually produced.',
    'the seed range is the bound ("all seeds" cannot be exhausted); an order dependence showing only under an order '
    'the range did not produce, or only for larger sets than the project builds, is outside it',
    'DESIGN.md §6 C13')

CLAIMS['C19'] = (
    'exploration',
    'bounded exhaustive enumeration of submodule inclusion trees and of argument declarations x command lines x spellings on the real configure/regenerate, built with make/refninja',
    '(a) every tree of submodule inclusions with depth <=3 and branching <=2 (one child reached through ../sibling, '
    'an export-only sibling included from every inner node) is generated for build.bfg and options.bfg and '
    'configured on both backends; each script probes every other script\'s global/function/class names before '
    'and after each submodule() call, verifies the exports it receives (and that export() at root level raises), '
    'and declares one input and two outputs whose resolved roots/suffixes are compared with the model; the build '
    'is run and the created files and read inputs compared. (b) every argument declaration over action x type x '
    'default x choices x dest x name and every command line of <=2 occurrences in every plain/--x- spelling: '
    'identical namespaces; explicit and make-triggered regenerations see the configure-time namespace.',
    'one known finding (build_step outputs in submodules, pinned by the suite) is listed in '
    'findings/known_findings.jsonl with its exact key',
    'DESIGN.md §6 C19')

CLAIMS['C08'] = (
    'model_checking',
    'explicit-state breadth-first exploration of edit histories on real project trees; regeneration triggered by the real make / refninja through the generated rule; differential oracle against a fresh configure',
    'For 7 project variants using find_files (single pattern; several bases with extra and '
    'exclude; platform filter and cache=False; directory()/header_directory(include=); submodule + options (with a '
    'nested options script) + pkg-config; a --toolchain file; a project-defined filter function) and both backends, '
    'breadth-first search to depth 2/3 over 22 edit operations '
    '(add matching / non-matching / extra / excluded file, remove, rename, add and remove directories, add an empty '
    'directory and later fill it, edit and touch build.bfg, edit options/submodule script, stop using find_files, '
    'edit a newly included submodule, drop a line from / extend the toolchain file) from the built initial state and every reached state (snapshots carry the real build '
    'tree along). After every edit the backend tool itself is run; oracles at every node: build files byte-identical '
    'to a fresh configure into the same path with the same saved configuration (auxiliary files as sets), and a '
    'second run invokes bfg9000 zero times (counted by a wrapper in BFG9000=).',
    'edits are strictly newer than the last generation (equal-timestamp edits excluded); refninja is the meaning of '
    'the Ninja manifest',
    'DESIGN.md §6 C08')

CLAIMS['C10'] = (
    'fault_enumeration',
    'exhaustive crash-point enumeration: every file-system mutation point of a regeneration (plus truncated/torn states of every written file) x every follow-up sequence, in forked children with fs calls interposed',
    'For each scenario (add/remove a matching file, edit build.bfg, edit options.bfg, configure re-run with other '
    'options over a built directory, initial configure) and backend, '
    'the regeneration is run once uninterrupted in a forked child with open/remove/utime/makedirs/rename wrapped to '
    'list its mutation points; it is then re-run once per point and killed with os._exit immediately before it '
    '(files seen absent/old, truncated, half-written, complete). From every crashed state every sequence of <=1 '
    '(quick) / <=2 (thorough) follow-ups over {make/refninja, regenerate --lazy, regenerate} is executed on the real '
    'tools; either one fails visibly or the build file and all declared regeneration outputs equal the '
    'uninterrupted run and a build succeeds. Raising/exiting/unparsable scripts must exit non-zero and leave the '
    'build file untouched. Every counted point must be hit.',
    'crash model = process death between file-system calls (no power-failure reordering)',
    'DESIGN.md §6 C10')

CLAIMS['C06'] = (
    'exploration',
    'exhaustive enumeration of build scripts (<=2 steps) x configuration product; pairwise differential between the Make build, the Ninja build (refninja) and compile_commands.json, observed through the recording stub toolchain',
    'Every program of the typed enumeration (610 with <=2 steps) x 2 (quick) / 24 (thorough) configurations (library '
    'mode, prefix with a space, global options, CFLAGS/CPPFLAGS/LDFLAGS/LDLIBS) is configured for both backends from '
    'one script. Compared without expected values: buildable target sets (Make database vs manifest, helper nodes '
    'contracted); per step the program, arguments, working directory and environment actually received; the set of '
    're-executed steps after modifying each source file and for an immediately repeated build; every product that '
    'consumes another step\'s product built alone from the configured tree (its steps\' commands must equal those of '
    'the full build: a command may not depend on the goal it was reached through); and every compile_commands.json entry against the process '
    'the backend started for that output (plus: every compile/link/copy step has an entry). Plus 33 Java programs '
    '(1-2 library jars, optionally chained, or a pre-built jar of the source tree, consumed through libs= in every order by an executable, library or '
    'object_file) built with the real javac/jar: per product the real and the order-only prerequisites of Makefile '
    'and build.ninja are the same sets, and the products re-made after editing each source agree (3 programs quick, '
    'all thorough).',
    'trusted: refninja; the documented Ninja-only colour flag is removed before comparing',
    'DESIGN.md §6 C06')

CLAIMS['C04'] = (
    'exploration',
    'bounded exhaustive enumeration of path-component names x roles x backends, observed on disk through the real make / refninja; run-time feasibility witnesses from hand-written reference Makefiles',
    'Every name of the shapes c, xc, cx, xcy for each printable ASCII character except the separators (thorough: plus '
    'every pair of special characters in the middle) is used as source file, source directory, named output, output '
    'sub-directory, copied file, compiled C source (object handed to the link rule; also with the object in the build '
    'root), find_files directory whose results '
    'are copied, find_files directory whose results feed a plainly named step, installed data file (real doppel: '
    'install and uninstall) and header of a C file compiled by the real gcc (bfg9000-depfixer; modify, then remove '
    'header and #include), on both backends. Observed per (name, role): the step creates '
    'the file at exactly the expected path and nowhere else, a second build runs nothing, modifying the prerequisite '
    're-makes exactly the consuming step, clean removes the outputs only, adding a file to a walked directory '
    'regenerates. A (name, role) pair is demanded of bfg9000 only if a hand-written reference Makefile can express '
    'the name in every slot the role uses (search over raw/backslash encodings per special character with decoy '
    'siblings, executed by the real make); for Ninja if the name has no `|` (no escape exists in the manifest language).',
    'known findings (Make: single quote, glob characters and | in target/directory positions, leading ~) are listed '
    'with exact keys; a weak reference search costs completeness only',
    'DESIGN.md §6 C04')

CLAIMS['C07'] = (
    'model_checking',
    'explicit-state BFS over edit histories of a generated C project built with the real gcc, make/refninja and bfg9000-depfixer; reference include scanner as oracle',
    'For 7 header-name classes (plain, space, #, $, %, leading ~, colon/parentheses), 2 object-path classes '
    '(executable and source directory names with a space / with $ and #) and a precompiled-header class, and both '
    'backends, a small C '
    'project whose program output is a function of its file contents is built with the real gcc through a logging '
    'wrapper; breadth-first search to depth 2/3 over edit operations (modify each header/source, add a header, drop '
    'an include and delete the header, rename a transitively included header, clean) from the built state and every '
    'reached state (snapshots carry the real build tree, depfiles and deps log along). After each edit: the build '
    'succeeds, the compiled translation units are exactly those whose include closure (reference scanner on the '
    'model) contains a changed file, the program prints the model\'s values, an immediate rebuild compiles nothing.',
    'name classes that a hand-written Makefile or gcc\'s own depfile cannot express are excluded at run time and '
    'listed in the evidence; Ninja side uses refninja\'s deps=gcc handling (Appendix A)',
    'DESIGN.md §6 C07')

CLAIMS['C16'] = (
    'exploration',
    'exhaustive enumeration of the semantic-option table x placements x installed compilers (all singles, all cross-family pairs), real gcc/clang/g++/clang++/gfortran builds, probe programs as oracle',
    'Every value of the documented semantic options (define, std, warning levels, debug, optimize levels incl. '
    'link-time, sanitize, static, entry_point; plus pic, opts.lib, pch, an include directory with a space and a '
    'Fortran program) is configured for gcc, clang, g++ and clang++ in three placements (per-target options, global '
    'options, per-target combined with a plain global option and an environment flag), alone and in all unordered '
    'pairs of values from different option families. Each case is built by the real make with the real compiler and '
    'the documented effect is observed on the result: probe program output (macros, __STDC_VERSION__/__cplusplus, '
    '__OPTIMIZE__, ASan), compiler diagnostics (warning levels, -Werror failing the build), readelf/nm/file '
    '(debug sections, LTO payload, static linking, ELF entry point).',
    'options or option pairs the compiler rejects in the spelling of its own manual are excluded at run time and '
    'listed; pthread/system includes need package() (mopack is broken in the image)',
    'DESIGN.md §6 C16')

CLAIMS['C14'] = (
    'exploration',
    'exhaustive enumeration of library DAGs (<=2/3 libraries, 4 kinds, all direct-dependency edge sets) x output directories x listing order x library modes x language mixes, built with the real gcc/g++/ar/ld and executed',
    'Every DAG of n <= 2 (quick) / 3 (thorough) libraries plus one executable is generated: kind per library in '
    '{static, shared, dual-use library(), whole-archive}, every edge set in which a library declares only its direct '
    'dependencies, the executable depending on every non-empty subset, at most one library carrying a requirement that '
    'only the final link can satisfy (a link option: calls resolve only under -Wl,--wrap; a library: -lm via '
    'opts.lib), output directories in different nested sub-directories, reversed libs= order, the four '
    '--enable/--disable-shared/static combinations (library() with both disabled must be rejected) and C/C++ mixes. '
    'Each project is built by the real toolchain through make; every executable is run with an empty environment '
    'before and after the build directory (whose name contains a space) is renamed and must print the value the '
    'model computes; readelf -d of every linked ELF must show only $ORIGIN-relative run paths and bare NEEDED/SONAME.',
    'forwarded packages need mopack (broken in this image); n = 3 restricted as stated in the evidence',
    'DESIGN.md §6 C14')

CLAIMS['C15'] = (
    'exploration',
    'exhaustive enumeration of installable subsets x install-directory configurations x DESTDIR modes x backends; install/uninstall run for real (doppel) and the resulting file tree compared with a declaration-level model',
    'All subsets of size <= 2 (quick) / 3 (thorough) of 12 installable kinds (executables incl. in a sub-directory, '
    'shared/static/versioned libraries, header file, header directory with an include pattern and nested structure, '
    'man pages with and without gzip, source and built data files with directory=, an executable whose project '
    'shared library is not itself installed) x {default, each of the seven directory options alone with a space in '
    'its path, all together} x DESTDIR {unset, configure-time plain/with space, and for Make install-time and '
    'install-time overriding} x {make, ninja}. install is run with the real doppel; the file tree under DESTDIR + '
    'directories must equal the model exactly (symlinks of versioned libraries valid, header structure kept, run-time '
    'dependency closure, nothing outside DESTDIR, source tree untouched, patchelf asked to set the installed library '
    'directory); uninstall with the same DESTDIR must remove exactly those files.',
    'stub toolchain (binaries are not ELF; the patchelf request is checked, not its effect); file modes not compared',
    'DESIGN.md §6 C15')

CLAIMS['C17'] = (
    'exploration',
    'exhaustive enumeration of specifier sets x splits judged by the real pkg-config on a version grid with a small-model argument; enumeration of package descriptions read back by the real pkg-config; consumer built by the real gcc',
    '(a) every set of <= 2 (quick) / 3 (thorough) version specifiers over 6 operators x 3 versions, in every split '
    'across requires / requires_private, and every Conflicts set of <= 2: the generated .pc is given to the real '
    'pkg-config together with dummy dependency files of each version of a 7-point grid (every endpoint plus a point of '
    'every open interval, so agreement on the grid is agreement on all versions); accepted versions must equal those '
    'the script\'s specifiers accept and unsatisfiable sets must be rejected at configure time. (b) include '
    'directory names and option values with spaces, quotes, $, #, \\, ;, parentheses, & x library kinds (shared in a '
    'sub-directory, static chain with forwarded link options, dual) x auto_fill: --cflags, --libs, --libs --static and '
    '--print-requires of the installed (real install) and -uninstalled files, before and after moving the build '
    'directory, must denote exactly the declaration; a consumer compiled and linked by the real gcc with the reported '
    'flags runs and prints the expected value.',
    'pkg-config output is read by its own escaping rules (backslash-unescape, no $ expansion); pkgconf quirks '
    '(merging of adjacent -Wl fragments, pre-escaped ${pcfiledir}) are avoided and noted in DESIGN.md',
    'DESIGN.md §6 C17')

CLAIMS['C18'] = (
    'exploration',
    'exhaustive enumeration of build scripts over the file-object builtins (with/without dist=False, root/submodule placement); real dist target + archive listing; audit-hooked configure and recorded build as the source of required members; re-configure of the unpacked archive',
    'Programs are all single templates over 13 builtins that create file objects (sources, explicit headers, header '
    'directories and directories with include patterns, find_files with extra / platform filter, extra_dist, man '
    'pages, copy_file, build_step files in the command and in files=, extra_deps, prebuilt libraries) x {dist, '
    'dist=False} x {root script, submodule, nested submodule}, plus mixed pairs (thorough: all pairs and all root '
    'triples), each with an options.bfg, on both backends. The real dist-gzip target is run with the real doppel and '
    'the archive listed: it must contain every srcdir file opened during configuration (sys.addaudithook), every '
    'srcdir file any build step reads (recorder log of a full stub build incl. headers) and what the script declares '
    '(find results incl. extra / not_now, extra_dist), must not contain files marked dist=False or anything outside '
    'the project prefix; the archive is then unpacked in place of the source tree and configured again, and build file '
    'and compile_commands.json must be equal up to ordering.',
    'equivalence up to ordering (find_files keeps os.listdir order); recursion of extra_dist(dirs=) is undocumented and a '
    'don\'t-care',
    'DESIGN.md §6 C18')

# --- more claims are appended above this line ---
NOT_YET = 'check not built yet in this session (see DESIGN.md §10 build order); not claimed until it is'
NOT_APPLICABLE = {}

ALL = ['C%02d' % i for i in range(1, 21)]


def main():
    checks = []
    for pid in ALL:
        if pid not in CLAIMS:
            continue
        cat, tech, text, note, ref = CLAIMS[pid]
        checks.append(dict(
            property_id=pid,
            quick_cmd='./run check %s --tier quick' % pid,
            thorough_cmd='./run check %s --tier thorough' % pid,
            evidence_file='evidence/%s.json' % pid,
            replay_cmd_template='./run replay {path}',
            engine='kernel',
            level_claimed=dict(category=cat, text=text, design_ref=ref),
            level_note=note,
            technique=tech))
    na = [dict(property_id=p, reason=NOT_APPLICABLE.get(p, NOT_YET))
          for p in ALL if p not in CLAIMS]
    m = dict(
        version=1,
        setup_cmd='./setup.sh',
        hooks=dict(guard='BFG9000_VERIF',
                   enable='no in-repo hooks: all seams (stub toolchain, fs interposition, wrappers) are applied '
                          'from /verif; checks import /repo\'s working tree directly',
                   baseline_off_cmd='cd /repo && /venv/bin/python -m pytest -ra -q -p no:cacheprovider '
                                    '--timeout=900 --continue-on-collection-errors',
                   source_commits=[], add_only=True),
        engines=[dict(name='kernel', path='kernel/',
                      serves_properties=sorted(CLAIMS),
                      kind_free_text='hand-written bounded exhaustive explorer (enumerators, history BFS, '
                                     'crash-point injector) driving the real bfg9000 code and the real '
                                     'make/sh/gcc/pkg-config; refninja reference evaluator for Ninja manifests')],
        checks=checks,
        notes='Deciding step of every check is exhaustive enumeration within stated bounds on the real '
              'implementation; VERIF_SEED only permutes visiting order. Exit 2 = harness error (no verdict).',
        not_applicable=na)
    with open(os.path.join(VERIF, 'MANIFEST.json'), 'w') as f:
        json.dump(m, f, indent=1)
        f.write('\n')
    try:
        import jsonschema
        jsonschema.validate(m, json.load(open('/root/.vp/MANIFEST.schema.json')))
        print('MANIFEST.json valid; claimed:', ' '.join(sorted(CLAIMS)))
    except ImportError:
        print('MANIFEST.json written (jsonschema unavailable)')


if __name__ == '__main__':
    main()
