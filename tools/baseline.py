#!/venv/bin/python
"""Run the pinned suite (guard off) and compare with /root/.vp/BASELINE.json stable_pass.
usage: baseline.py [repo_dir]   -> exit 0 iff every stable_pass test passes."""
import json, os, subprocess, sys, tempfile, xml.etree.ElementTree as ET
repo = sys.argv[1] if len(sys.argv) > 1 else '/repo'
base = json.load(open('/root/.vp/BASELINE.json'))
with tempfile.TemporaryDirectory(dir='/dev/shm') as d:
    x = os.path.join(d, 'j.xml')
    env = dict(os.environ); env.pop('BFG9000_VERIF', None)
    env['PYTHONDONTWRITEBYTECODE'] = '1'
    subprocess.run(['/venv/bin/python', '-m', 'pytest', '-ra', '-q', '-p', 'no:cacheprovider',
                    '--timeout=900', '--continue-on-collection-errors', '-n', '8' , '--junitxml=' + x]
                   if False else
                   ['/venv/bin/python', '-m', 'pytest', '-q', '-p', 'no:cacheprovider',
                    '--timeout=900', '--continue-on-collection-errors', '--junitxml=' + x],
                   cwd=repo, env=env, stdout=subprocess.DEVNULL, stderr=subprocess.DEVNULL)
    passed = set()
    for tc in ET.parse(x).getroot().iter('testcase'):
        if not any(c.tag in ('failure', 'error', 'skipped') for c in tc):
            passed.add('%s::%s' % (tc.get('classname'), tc.get('name')))
want = set(base['stable_pass'])
missing = sorted(want - passed)
print('stable_pass=%d passed_now=%d missing=%d' % (len(want), len(passed), len(missing)))
for m in missing[:40]:
    print('  MISSING', m)
sys.exit(1 if missing else 0)
