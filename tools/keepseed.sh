#!/bin/sh
# usage: tools/keepseed.sh <tag e.g. C12a> <PID> "<caught-by note>"
# confirms a sub-agent's seeded change in its scratch worktree, then files it under seeded/
set -u
tag="$1"; pid="$2"; note="${3:-}"
wt=/tmp/seedwork/wt-$tag; out=/tmp/seedwork/out-$tag
[ -f $out/patch.diff ] || { echo "no patch"; exit 1; }
demo=$(ls $out/demo.py $out/demo.sh 2>/dev/null | head -1)
run_demo() { case "$demo" in *.py) PYTHONPATH=$1 /venv/bin/python "$demo" "$1";; *) PYTHONPATH=$1 sh "$demo" "$1";; esac; }
# worktree state must equal HEAD + patch
git -C $wt stash -q 2>/dev/null; git -C $wt checkout -q -- . ; git -C $wt apply $out/patch.diff || { echo "patch does not apply"; exit 1; }
echo "--- suite on modified worktree"; /verif/tools/baseline.py $wt; s=$?
echo "--- demo on modified worktree (expect failure)"; run_demo $wt > /dev/shm/demo.mod 2>&1; dm=$?; tail -3 /dev/shm/demo.mod
git -C $wt checkout -q -- .
echo "--- demo on unmodified worktree (expect success)"; run_demo $wt > /dev/shm/demo.orig 2>&1; do_=$?; tail -3 /dev/shm/demo.orig
echo "suite=$s demo_modified=$dm demo_unmodified=$do_"
if [ $s -eq 0 ] && [ $dm -ne 0 ] && [ $do_ -eq 0 ]; then
  d=/verif/seeded/$tag; mkdir -p $d; cp $out/patch.diff $demo $d/
  /venv/bin/python - "$out/meta.json" "$d/meta.json" "$pid" "$note" <<'PY'
import json, sys
src, dst, pid, note = sys.argv[1:5]
try: m = json.load(open(src))
except Exception: m = {}
m['property'] = pid
m['confirmed'] = {'suite_on_modified': 'all 1223 pinned stable_pass tests pass (tools/baseline.py <worktree>)',
                  'demo_on_modified': 'fails (non-zero exit)', 'demo_on_unmodified': 'passes (exit 0)'}
m['detected_by'] = note
json.dump(m, open(dst, 'w'), indent=1)
PY
  echo "KEPT $d"
else echo "NOT KEPT"; fi
git -C /repo worktree remove --force $wt && echo "worktree removed"
