#!/bin/sh
# MANIFEST.setup_cmd: build the framework from files on disk only (offline).
set -e
cd "$(dirname "$0")"
mkdir -p build evidence replay
if [ -f stubs/recorder.c ]; then
  gcc -O1 -o build/recorder stubs/recorder.c
fi
/venv/bin/python -c "import sys; sys.path.insert(0,'/repo'); import bfg9000; print('bfg9000 from', bfg9000.__file__)"
echo setup ok
