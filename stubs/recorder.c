/* Stub toolchain / process recorder for the bfg9000 verification harness.
 *
 * One binary, behaviour chosen by basename(argv[0]):
 *   cc c++ gcc g++ gfortran clang...  : compiler / linker stub
 *   ar                                : archiver stub (ar rcs OUT IN...)
 *   drv*                              : test driver: runs every argument through /bin/sh -c
 *   anything else                     : plain recorder (exit 0)
 * Every invocation appends one JSON line to $VERIF_LOG:
 *   {"tool":..,"argv":[..],"cwd":..,"env":{VV*,...},"inputs":[..],"outputs":[..]}
 * Compiler/linker/archiver stubs fail (exit 1) when an input file is missing, write
 * outputs whose content is a hash of argv and of all input contents (incl. headers found
 * through #include "..." scanning against -I/-isystem/-include), and write gcc-style
 * depfiles for -MF.
 */
#define _GNU_SOURCE
#include <errno.h>
#include <fcntl.h>
#include <libgen.h>
#include <limits.h>
#include <stdint.h>
#include <stdio.h>
#include <stdlib.h>
#include <string.h>
#include <sys/stat.h>
#include <sys/wait.h>
#include <unistd.h>

extern char **environ;

static char *buf;
static size_t blen, bcap;

static void put(const char *s, size_t n) {
    if (blen + n + 1 > bcap) {
        bcap = (blen + n + 1) * 2;
        buf = realloc(buf, bcap);
    }
    memcpy(buf + blen, s, n);
    blen += n;
    buf[blen] = 0;
}
static void puts_(const char *s) { put(s, strlen(s)); }
static void putjs(const char *s) {
    put("\"", 1);
    for (const unsigned char *p = (const unsigned char *)s; *p; p++) {
        char t[8];
        if (*p == '"' || *p == '\\') { t[0] = '\\'; t[1] = *p; put(t, 2); }
        else if (*p < 0x20 || *p == 0x7f) { snprintf(t, sizeof t, "\\u%04x", *p); put(t, 6); }
        else put((const char *)p, 1);
    }
    put("\"", 1);
}

#define MAXF 512
static const char *inputs[MAXF]; static int nin;
static const char *outputs[MAXF]; static int nout;
static const char *incdirs[MAXF]; static int ninc;
static char *headers[MAXF]; static int nhdr;

static uint64_t H = 1469598103934665603ULL;
static void hbytes(const void *p, size_t n) {
    const unsigned char *c = p;
    for (size_t i = 0; i < n; i++) { H ^= c[i]; H *= 1099511628211ULL; }
}
static int hfile(const char *path) {
    int fd = open(path, O_RDONLY);
    if (fd < 0) return -1;
    char b[65536]; ssize_t n;
    while ((n = read(fd, b, sizeof b)) > 0) hbytes(b, n);
    close(fd);
    return 0;
}
static int exists(const char *p) { struct stat st; return stat(p, &st) == 0; }
static int isreg(const char *p) { struct stat st; return stat(p, &st) == 0 && S_ISREG(st.st_mode); }

static int ends(const char *s, const char *e) {
    size_t a = strlen(s), b = strlen(e);
    return a >= b && strcmp(s + a - b, e) == 0;
}
static int is_source(const char *s) {
    static const char *ext[] = {".c", ".cc", ".cpp", ".cxx", ".C", ".f", ".f90", ".F90", ".m", ".mm", ".h", ".hpp", ".hh", ".S", ".s", 0};
    for (int i = 0; ext[i]; i++) if (ends(s, ext[i])) return 1;
    return 0;
}

static void scan_includes(const char *file, int depth);
static void try_header(const char *dir, const char *name, int depth, int *found) {
    char p[PATH_MAX];
    if (*found) return;
    if (name[0] == '/') snprintf(p, sizeof p, "%s", name);
    else snprintf(p, sizeof p, "%s/%s", dir, name);
    if (!isreg(p)) return;
    *found = 1;
    for (int i = 0; i < nhdr; i++) if (!strcmp(headers[i], p)) return;
    if (nhdr < MAXF) headers[nhdr++] = strdup(p);
    hbytes(p, strlen(p));
    hfile(p);
    scan_includes(p, depth + 1);
}
static void scan_includes(const char *file, int depth) {
    if (depth > 16) return;
    FILE *f = fopen(file, "r");
    if (!f) return;
    char line[4096];
    char dir[PATH_MAX];
    snprintf(dir, sizeof dir, "%s", file);
    char *d = dirname(dir);
    char dcopy[PATH_MAX]; snprintf(dcopy, sizeof dcopy, "%s", d);
    while (fgets(line, sizeof line, f)) {
        char *p = line;
        while (*p == ' ' || *p == '\t') p++;
        if (*p != '#') continue;
        p++;
        while (*p == ' ' || *p == '\t') p++;
        if (strncmp(p, "include", 7)) continue;
        p += 7;
        while (*p == ' ' || *p == '\t') p++;
        if (*p != '"') continue;
        p++;
        char *e = strchr(p, '"');
        if (!e) continue;
        *e = 0;
        int found = 0;
        try_header(dcopy, p, depth, &found);
        for (int i = 0; i < ninc; i++) try_header(incdirs[i], p, depth, &found);
    }
    fclose(f);
}

static void write_out(const char *path, const char *kind, int executable) {
    char b[512];
    int n;
    if (executable) n = snprintf(b, sizeof b, "#!/bin/sh\n# stub %s %016llx\n"
        "[ -n \"$VERIF_LOG\" ] && printf '{\"tool\":\"testexe\",\"argv\":[\"%%s\"],\"cwd\":\"%%s\",\"env\":{},\"inputs\":[],\"outputs\":[]}\\n' \"$0\" \"$PWD\" >> \"$VERIF_LOG\"\nexit 0\n",
        kind, (unsigned long long)H);
    else n = snprintf(b, sizeof b, "stub %s %016llx\n", kind, (unsigned long long)H);
    int fd = open(path, O_WRONLY | O_CREAT | O_TRUNC, executable ? 0755 : 0644);
    if (fd < 0) { fprintf(stderr, "stub: cannot write %s: %s\n", path, strerror(errno)); exit(1); }
    if (write(fd, b, n) != n) exit(1);
    close(fd);
}

/* gcc-style depfile escaping: space -> "\ ", # -> "\#", $ -> "$$", backslash kept */
static void dep_escape(FILE *f, const char *s) {
    for (; *s; s++) {
        if (*s == ' ') fputs("\\ ", f);
        else if (*s == '#') fputs("\\#", f);
        else if (*s == '$') fputs("$$", f);
        else fputc(*s, f);
    }
}

static void log_record(const char *tool, int argc, char **argv) {
    const char *logp = getenv("VERIF_LOG");
    if (!logp) return;
    char cwd[PATH_MAX];
    if (!getcwd(cwd, sizeof cwd)) strcpy(cwd, "?");
    blen = 0;
    puts_("{\"tool\":"); putjs(tool);
    puts_(",\"argv\":[");
    for (int i = 0; i < argc; i++) { if (i) puts_(","); putjs(argv[i]); }
    puts_("],\"cwd\":"); putjs(cwd);
    puts_(",\"env\":{");
    int first = 1;
    const char *extra = getenv("VERIF_ENVKEYS");   /* comma separated extra names */
    for (char **e = environ; *e; e++) {
        const char *eq = strchr(*e, '=');
        if (!eq) continue;
        size_t kl = eq - *e;
        int want = kl >= 2 && (*e)[0] == 'V' && (*e)[1] == 'V';
        if (!want && extra) {
            const char *p = extra;
            while (*p) {
                const char *c = strchr(p, ',');
                size_t l = c ? (size_t)(c - p) : strlen(p);
                if (l == kl && !strncmp(p, *e, kl)) { want = 1; break; }
                p += l; if (*p == ',') p++;
            }
        }
        if (!want) continue;
        if (!first) puts_(",");
        first = 0;
        char k[256]; if (kl >= sizeof k) kl = sizeof k - 1;
        memcpy(k, *e, kl); k[kl] = 0;
        putjs(k); puts_(":"); putjs(eq + 1);
    }
    puts_("},\"inputs\":[");
    for (int i = 0; i < nin; i++) { if (i) puts_(","); putjs(inputs[i]); }
    for (int i = 0; i < nhdr; i++) { if (i || nin) puts_(","); putjs(headers[i]); }
    puts_("],\"outputs\":[");
    for (int i = 0; i < nout; i++) { if (i) puts_(","); putjs(outputs[i]); }
    puts_("]}\n");
    int fd = open(logp, O_WRONLY | O_CREAT | O_APPEND, 0644);
    if (fd >= 0) { if (write(fd, buf, blen) < 0) {} close(fd); }
}

static int compiler(const char *tool, int argc, char **argv) {
    const char *out = 0, *mf = 0;
    int cflag = 0, shared = 0, version = 0, Eflag = 0;
    int strict = getenv("VERIF_STRICT") != 0;   /* fail on missing input files */
    for (int i = 1; i < argc; i++) {
        const char *a = argv[i];
        if (!strcmp(a, "--version")) version = 1;
        else if ((!strcmp(a, "-?") || !strcmp(a, "/?")) && argc == 2) return 1;   /* MSVC probe */
        else if (!strcmp(a, "-dumpmachine") && argc == 2) { printf("x86_64-linux-gnu\n"); return 0; }   /* cross probe */
        else if (!strcmp(a, "-c")) cflag = 1;
        else if (!strcmp(a, "-E")) Eflag = 1;
        else if (!strcmp(a, "-shared")) shared = 1;
        else if (!strcmp(a, "-o") && i + 1 < argc) out = argv[++i];
        else if (!strcmp(a, "-MF") && i + 1 < argc) mf = argv[++i];
        else if ((!strcmp(a, "-I") || !strcmp(a, "-isystem") || !strcmp(a, "-iquote")) && i + 1 < argc) { if (ninc < MAXF) incdirs[ninc++] = argv[++i]; }
        else if (!strncmp(a, "-I", 2) && a[2]) { if (ninc < MAXF) incdirs[ninc++] = a + 2; }
        else if (!strcmp(a, "-include") && i + 1 < argc) {
            /* like gcc: a precompiled X.gch is used in place of X (which need not exist then) */
            static char gch[MAXF][4096]; static int ngch = 0;
            const char *x = argv[++i];
            if (access(x, F_OK) != 0 && ngch < MAXF && strlen(x) < 4000) {
                snprintf(gch[ngch], sizeof gch[ngch], "%s.gch", x);
                if (access(gch[ngch], F_OK) == 0) x = gch[ngch++];
            }
            if (nin < MAXF) inputs[nin++] = x;
        }
        else if ((!strcmp(a, "-x") || !strcmp(a, "-MT") || !strcmp(a, "-MQ") || !strcmp(a, "-L") || !strcmp(a, "-l") || !strcmp(a, "-Xlinker") || !strcmp(a, "-e")) && i + 1 < argc) i++;
        else if (a[0] == '-') continue;
        else if (nin < MAXF) inputs[nin++] = a;
    }
    if (version) {
        printf("%s (GCC) 12.2.0\nCopyright (C) 2022 Free Software Foundation, Inc.\n", tool);
        return 0;
    }
    {   /* gcc's include search list probe (cc -E -Wp,-v /dev/null): C_INCLUDE_PATH, CPATH, then /usr/include */
        int wpv = 0;
        for (int i = 1; i < argc; i++) if (!strcmp(argv[i], "-Wp,-v")) wpv = 1;
        if (wpv && Eflag) {
            printf("#include \"...\" search starts here:\n#include <...> search starts here:\n");
            const char *vars[] = {"CPATH", "C_INCLUDE_PATH"};
            for (int v = 0; v < 2; v++) {
                const char *e = getenv(vars[v]);
                if (!e) continue;
                char buf[8192]; snprintf(buf, sizeof buf, "%s", e);
                for (char *t = strtok(buf, ":"); t; t = strtok(0, ":")) printf(" %s\n", t);
            }
            printf(" /usr/include\nEnd of search list.\n");
            return 0;
        }
    }
    if ((Eflag && !out) || (!out && !cflag)) return 1;            /* probes: unsupported */
    hbytes(cflag ? "c" : shared ? "s" : "l", 1);
    for (int i = 1; i < argc; i++) hbytes(argv[i], strlen(argv[i]) + 1);
    int miss = 0;
    for (int i = 0; i < nin; i++) {
        if (!exists(inputs[i])) {
            if (strict) { fprintf(stderr, "stub %s: missing input %s\n", tool, inputs[i]); miss = 1; }
            continue;
        }
        hfile(inputs[i]);
        if (is_source(inputs[i])) scan_includes(inputs[i], 0);
    }
    if (nin == 0) { fprintf(stderr, "stub %s: no inputs\n", tool); log_record(tool, argc, argv); return 1; }
    char dflt[PATH_MAX];
    if (!out && cflag) {
        snprintf(dflt, sizeof dflt, "%s", inputs[0]);
        char *b = basename(dflt); char *dot = strrchr(b, '.');
        if (dot) *dot = 0;
        static char o[PATH_MAX]; snprintf(o, sizeof o, "%s.o", b); out = o;
    }
    if (!miss) {
        outputs[nout++] = out;
        write_out(out, cflag ? "object" : shared ? "shared" : "exe", !cflag && !shared);
        if (mf) {
            FILE *f = fopen(mf, "w");
            if (!f) { fprintf(stderr, "stub: cannot write %s\n", mf); return 1; }
            dep_escape(f, out); fputs(":", f);
            for (int i = 0; i < nin; i++) {
                if (!exists(inputs[i])) continue;
                size_t L = strlen(inputs[i]);
                if (L > 4 && !strcmp(inputs[i] + L - 4, ".gch")) continue;   /* like gcc: a used .gch is not listed */
                fputs(" ", f); dep_escape(f, inputs[i]);
            }
            for (int i = 0; i < nhdr; i++) { fputs(" \\\n ", f); dep_escape(f, headers[i]); }
            fputs("\n", f);
            fclose(f);
        }
    }
    log_record(tool, argc, argv);
    return miss;
}

static int archiver(const char *tool, int argc, char **argv) {
    if (argc >= 2 && !strcmp(argv[1], "--version")) { printf("GNU ar (GNU Binutils) 2.40\n"); return 0; }
    if (argc < 3) return 1;
    const char *out = argv[2];
    int miss = 0;
    for (int i = 1; i < argc; i++) hbytes(argv[i], strlen(argv[i]) + 1);
    for (int i = 3; i < argc; i++) {
        if (nin < MAXF) inputs[nin++] = argv[i];
        if (!exists(argv[i])) { fprintf(stderr, "stub ar: missing input %s\n", argv[i]); miss = 1; }
        else hfile(argv[i]);
    }
    if (!miss) { outputs[nout++] = out; write_out(out, "archive", 0); }
    log_record(tool, argc, argv);
    return miss;
}

/* gen OUT... -- IN... : creates every OUT from a hash of argv and all IN contents; fails on missing IN */
static int generator(const char *tool, int argc, char **argv) {
    int sep = 0, miss = 0;
    for (int i = 1; i < argc; i++) hbytes(argv[i], strlen(argv[i]) + 1);
    for (int i = 1; i < argc; i++) {
        if (!strcmp(argv[i], "--")) { sep = 1; continue; }
        if (!sep) { if (nout < MAXF) outputs[nout++] = argv[i]; }
        else {
            if (nin < MAXF) inputs[nin++] = argv[i];
            if (!exists(argv[i])) { fprintf(stderr, "stub gen: missing input %s\n", argv[i]); miss = 1; }
            else hfile(argv[i]);
        }
    }
    if (!miss) for (int i = 0; i < nout; i++) write_out(outputs[i], "generated", 0);
    else nout = 0;
    log_record(tool, argc, argv);
    return miss;
}

/* cp [-f] SRC DST : really copies (content only), logged */
static int copier(const char *tool, int argc, char **argv) {
    const char *src = 0, *dst = 0;
    for (int i = 1; i < argc; i++) {
        if (argv[i][0] == '-' && argv[i][1]) continue;
        src = dst; dst = argv[i];
    }
    if (!src || !dst) return 1;
    inputs[nin++] = src;
    FILE *in = fopen(src, "rb");
    if (!in) { fprintf(stderr, "stub cp: missing input %s\n", src); log_record(tool, argc, argv); return 1; }
    FILE *out = fopen(dst, "wb");
    if (!out) { fprintf(stderr, "stub cp: cannot write %s\n", dst); fclose(in); log_record(tool, argc, argv); return 1; }
    char b[65536]; size_t n;
    while ((n = fread(b, 1, sizeof b, in)) > 0) fwrite(b, 1, n, out);
    fclose(in); fclose(out);
    outputs[nout++] = dst;
    log_record(tool, argc, argv);
    return 0;
}

/* lnstub [-s] [-f] SRC DST : really links, logged */
static int linker_(const char *tool, int argc, char **argv) {
    const char *src = 0, *dst = 0; int sym = 0;
    for (int i = 1; i < argc; i++) {
        if (argv[i][0] == '-' && argv[i][1]) { if (strchr(argv[i], 's')) sym = 1; continue; }
        src = dst; dst = argv[i];
    }
    if (!src || !dst) return 1;
    unlink(dst);
    int rc = sym ? symlink(src, dst) : link(src, dst);
    if (rc != 0) { fprintf(stderr, "stub ln: %s -> %s: %s\n", dst, src, strerror(errno)); log_record(tool, argc, argv); return 1; }
    /* the referent, as seen from the link's directory */
    static char ref[PATH_MAX];
    if (sym && src[0] != '/') {
        char d[PATH_MAX]; snprintf(d, sizeof d, "%s", dst);
        snprintf(ref, sizeof ref, "%s/%s", dirname(d), src);
    } else snprintf(ref, sizeof ref, "%s", src);
    inputs[nin++] = ref;
    outputs[nout++] = dst;
    log_record(tool, argc, argv);
    return 0;
}

static int driver(const char *tool, int argc, char **argv) {
    log_record(tool, argc, argv);
    int rc = 0;
    /* argv[1], argv[2] are the driver's own arguments (an id and the string under test);
       only the children (argv[3..]) are commands */
    for (int i = 3; i < argc; i++) {
        pid_t p = fork();
        if (p == 0) { execl("/bin/sh", "sh", "-c", argv[i], (char *)0); _exit(127); }
        int st; waitpid(p, &st, 0);
        if (!WIFEXITED(st) || WEXITSTATUS(st)) rc = 1;
    }
    return rc;
}

int main(int argc, char **argv) {
    char a0[PATH_MAX];
    snprintf(a0, sizeof a0, "%s", argv[0]);
    const char *tool = basename(a0);
    static const char *cc[] = {"cc", "c++", "gcc", "g++", "gfortran", "clang", "clang++", "ld", 0};
    for (int i = 0; cc[i]; i++) if (!strcmp(tool, cc[i])) return compiler(tool, argc, argv);
    if (!strcmp(tool, "ar")) return archiver(tool, argc, argv);
    if (!strncmp(tool, "drv", 3)) return driver(tool, argc, argv);
    if (!strcmp(tool, "gen")) return generator(tool, argc, argv);
    if (!strcmp(tool, "cpstub")) return copier(tool, argc, argv);
    if (!strcmp(tool, "lnstub")) return linker_(tool, argc, argv);
    if (argc >= 2 && !strcmp(argv[1], "--version") && (!strcmp(tool, "patchelf") )) { printf("patchelf 0.14\n"); }
    log_record(tool, argc, argv);
    const char *rc = getenv("VERIF_STUB_EXIT");
    return rc ? atoi(rc) : 0;
}
